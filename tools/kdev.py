#!/usr/bin/env python3
"""dev helper: tools/kdev.py <rel source file> <harness file> <pattern> [features] [jobs] [timeout]"""
import sys, os
sys.path.insert(0, os.path.dirname(os.path.dirname(os.path.abspath(__file__))))
from vf import common
rel, hf, pat = sys.argv[1:4]
feat = sys.argv[4] if len(sys.argv) > 4 and sys.argv[4] != '-' else None
jobs = int(sys.argv[5]) if len(sys.argv) > 5 else 8
to = int(sys.argv[6]) if len(sys.argv) > 6 else 900
ov = common.Overlay('dev-' + pat, appends={rel: hf})
res, out, rc, wall = common.run_kani(ov, pat, jobs=jobs, timeout=to, features=feat, tname='dev' + ('-' + feat if feat else ''))
if not res or os.environ.get('V'):
    print(out[-6000:])
for h, r in res.items():
    print(f'{r.short:55s} {r.status} checks {r.n_failed}/{r.n_checks} covers {r.covers} {r.time:.1f}s')
    for c in r.failed_checks: print('     FAILED:', c[0], os.path.basename(c[1]), c[2], c[3].split('::')[-1])
print('wall', round(wall, 1), 'rc', rc)
