#!/bin/bash
# runs every quick check once, sequentially, and prints one line per check; then optional thorough ids given as arguments
for p in C01 C03 C04 C07 C08 C09 C10 C11 C12 C14 C15 C16 C17 C18; do
  s=$(date +%s); ./check $p quick > quick-$p.out 2>&1; rc=$?; e=$(date +%s)
  echo "$p rc=$rc wall=$((e-s))s $(grep -E '^\[' quick-$p.out | cut -c1-170)"
  grep -E "^VIOLATION|^INCONCLUSIVE" quick-$p.out | cut -c1-250 | head -5
done
echo QUICK-SWEEP-DONE
for p in "$@"; do
  s=$(date +%s); ./check $p thorough > thorough-$p.out 2>&1; rc=$?; e=$(date +%s)
  echo "$p rc=$rc wall=$((e-s))s $(grep -E '^\[' thorough-$p.out | cut -c1-170)"
  grep -E "^VIOLATION|^INCONCLUSIVE" thorough-$p.out | cut -c1-250 | head -5
done
echo SWEEP-DONE
