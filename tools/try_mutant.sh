#!/bin/bash
# tools/try_mutant.sh <patch.diff> <property> [<property>...]  - apply a seeded change to /repo, run the quick checks, undo it
patch=$1; shift
cd /repo || exit 2
if [ -n "$(git status --porcelain)" ]; then echo "repo not clean"; exit 2; fi
git apply "$patch" || { echo "patch does not apply"; exit 2; }
trap 'git -C /repo checkout -- . ' EXIT
cd /verif
for p in "$@"; do
  ./check "$p" quick > /tmp/mut-$p.out 2>&1; rc=$?
  echo "== $p rc=$rc"; grep -E "^VIOLATION|^KNOWN-FINDING|^INCONCLUSIVE|^\[" /tmp/mut-$p.out | cut -c1-300
done
