#!/bin/bash
# tools/try_mutant.sh <patch.diff> <property> [<property>...]
# Applies a seeded change to a PRIVATE worktree of /repo (never to /repo itself), points the checks at it through VERIF_REPO,
# runs the quick checks and removes the worktree.  (The registered commands always run against /repo; VERIF_REPO is a test hook.)
patch=$1; shift
wt=/tmp/repo-mut-$$
git -C /repo worktree add -q --detach "$wt" HEAD || exit 2
cp /repo/sim/Cargo.lock "$wt/sim/" 2>/dev/null
trap 'git -C /repo worktree remove --force "$wt" 2>/dev/null' EXIT
git -C "$wt" apply "$patch" || { echo "patch does not apply"; exit 2; }
cd /verif
for p in "$@"; do
  VERIF_REPO="$wt" VERIF_SCRATCH=/tmp/elvis-verif-mut$$ VERIF_EVIDENCE_DIR=/tmp/elvis-verif-mut$$-evidence ./check "$p" quick > /tmp/mut-$p-$$.out 2>&1; rc=$?
  echo "== $p rc=$rc"; grep -E "^VIOLATION|^KNOWN-FINDING|^INCONCLUSIVE|^\[" /tmp/mut-$p-$$.out | cut -c1-300 | head -12
done
