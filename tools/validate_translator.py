#!/usr/bin/env python3
"""tools/validate_translator.py [per_unit] : stress test of the mirx translator on the TCB - concretise up to `per_unit` passing symbolic
paths of EVERY forged-segment unit and of the closed-system scenarios, replay them natively and compare the per-step digests.
Not a registered check; used while building to flush out model discrepancies (see DESIGN 8.5)."""
import os, sys, time
sys.path.insert(0, os.path.dirname(os.path.dirname(os.path.abspath(__file__))))
os.environ.setdefault('VERIF_SEED', '7')
from mirx import tcbspecs, tcbrun, tcbclosed
from vf import mirxparts

per = int(sys.argv[1]) if len(sys.argv) > 1 else 4
# sample more paths: patch the selection rule
import mirx.tcbspecs as T
src = open(T.__file__).read()
T_check = T.check_path


def check_path_more(ex, F, unit, sim, kind, r, res, known):
    n0 = len(res.validation)
    T_check(ex, F, unit, sim, kind, r, res, known)
    if kind == 'ok' and len(res.validation) == n0 and len(res.validation) < per and 'post' in sim.info and (res.paths % 3 == 0):
        okk, m = ex.check_sat()
        ev = T.model_eval(m)
        res.validation.append({'rust': T.render_rust(sim, ev, '@@NAME@@', prelude=False), 'predicted': T.predict_lines(sim, ev)})


T.check_path = check_path_more
t0 = time.time()
results = tcbrun.run_units(T.all_units(), tier='thorough' if os.environ.get('THOROUGH') else 'quick', budget=1500)
items = []
for r in results:
    items += r.validation[:per]
    for u in r.unsupported:
        print('UNSUPPORTED', u[:200])
print(f'{len(items)} traces from {len(results)} units in {time.time() - t0:.0f}s; replaying natively ...')
bad = 0
for i in range(0, len(items), 150):
    chunk = items[i:i + 150]
    nat = mirxparts.native_batch(chunk, timeout=3000)
    for it, (matched, lines, err) in zip(chunk, nat):
        if not matched:
            bad += 1
            print('MISMATCH', mirxparts.first_diff(it['predicted'], lines) if matched is False else err[-300:])
print(f'validated {len(items) - bad} / {len(items)} traces, {bad} mismatches')
sys.exit(1 if bad else 0)
