#!/bin/bash
# tools/take_seed.sh <worktree> <k> <seed id> <append|inmod>:<relpath> <test filter> <property>
# adapts a sub-agent's out/patchK.diff + demoK.rs + metaK.json to tools/confirm_seed.py (confirmation in the agent's scratch worktree)
wt=$1; k=$2; sid=$3; where=$4; filt=$5; prop=$6
git -C "$wt" checkout -- . 2>/dev/null
cp "$wt/out/patch$k.diff" "$wt/patch.diff"; cp "$wt/out/demo$k.rs" "$wt/demo_test.rs"
if [ -f "$wt/out/meta$k.json" ]; then cp "$wt/out/meta$k.json" "$wt/meta.json"; else echo "{\"summary\": \"see patch.diff\"}" > "$wt/meta.json"; fi
python3 /verif/tools/confirm_seed.py "$sid" "$wt" "$where" "$filt" "$prop"
rc=$?
git -C "$wt" checkout -- . 2>/dev/null
exit $rc
