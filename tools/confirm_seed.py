#!/usr/bin/env python3
"""tools/confirm_seed.py <seed id> <worktree> <append|inmod>:<relpath> <test filter> <property> [detected_by...]
Confirms a seeded change in its scratch worktree (demo fails with the change, passes without it), then stores
patch.diff, the demonstration and meta.json under /verif/seeded/<seed id>/."""
import json, os, shutil, subprocess, sys
sid, wt, where, filt, prop = sys.argv[1:6]
detected = sys.argv[6:]
mode, rel = where.split(':', 1)
target = os.path.join(wt, rel)
patch = os.path.join(wt, 'patch.diff')
demo = open(os.path.join(wt, 'demo_test.rs')).read()
env = dict(os.environ, CARGO_TARGET_DIR=os.path.join(wt, 'sim', 'target'), CARGO_NET_OFFLINE='true')

def sh(*a, **k):
    return subprocess.run(a, capture_output=True, text=True, **k)

def reset():
    sh('git', '-C', wt, 'checkout', '--', '.')
    if mode == 'file' and os.path.exists(target):
        os.remove(target)

def add_demo():
    if mode == 'file':
        open(target, 'w').write(demo)
        return
    s = open(target).read()
    if mode == 'append':
        s = s + '\n' + demo + '\n'
    else:
        i = s.rstrip().rfind('}')
        s = s[:i] + '\n' + demo + '\n}\n'
    open(target, 'w').write(s)

def run():
    feat = ['--features', os.environ['SEED_FEATURES']] if os.environ.get('SEED_FEATURES') else []
    sel = ['--test', os.path.splitext(os.path.basename(rel))[0]] if mode == 'file' else ['--lib']
    p = sh('cargo', 'test', '--offline', '-p', os.environ.get('SEED_PKG', 'elvis-core'), *sel, *feat, filt, cwd=os.path.join(wt, 'sim'), env=env)
    out = p.stdout + p.stderr
    import re
    m = re.search(r'test result: (\w+)\. (\d+) passed; (\d+) failed', out)
    if not m and p.returncode != 0 and ('exited abnormally' in out or 'error: test failed' in out):
        # the repository installs a panic hook that exits the process: a failing test shows up as an abnormal exit
        return 'test binary exited abnormally (panic hook calls process::exit): ' + ' '.join(out.strip().split('\n')[-2:])[:300], 1, 0
    return (m.group(0) if m else 'no result: ' + out[-400:]), (int(m.group(3)) if m else -1), (int(m.group(2)) if m else -1)

reset()
r = sh('git', '-C', wt, 'apply', patch)
assert r.returncode == 0, r.stderr
add_demo()
with_mut = run()
reset()
add_demo()
without = run()
reset()
sh('git', '-C', wt, 'apply', patch)
ok = with_mut[1] > 0 and without[1] == 0 and without[2] > 0
suite = None
if ok and os.environ.get('SEED_SUITE', '1') == '1':
    # the existing suite, unedited, with the change applied (timing-dependent simulation tests are retried: they flake under load)
    p = sh('cargo', 'nextest', 'run', '--workspace', '--no-fail-fast', '--test-threads', '6', '--retries', '3', '--offline', cwd=os.path.join(wt, 'sim'), env=env)
    import re
    m = re.search(r'Summary \[.*?\] (\d+) tests run: (\d+) passed(?: \((\d+) flaky\))?(?:, (\d+) failed)?', p.stdout + p.stderr)
    suite = m.group(0) if m else 'no summary: ' + (p.stdout + p.stderr)[-300:]
    print('existing suite with change:', suite)
    ok = bool(m) and not m.group(4) and p.returncode == 0
print('with change   :', with_mut[0]); print('without change:', without[0]); print('CONFIRMED' if ok else 'NOT CONFIRMED')
if ok:
    d = os.path.join('/verif/seeded', sid)
    os.makedirs(d, exist_ok=True)
    shutil.copy(patch, os.path.join(d, 'patch.diff'))
    shutil.copy(os.path.join(wt, 'demo_test.rs'), os.path.join(d, 'demo_test.rs'))
    meta = json.load(open(os.path.join(wt, 'meta.json')))
    meta['property'] = prop
    meta['demo_placement'] = where
    meta['confirmed_by_builder'] = {'with_change': with_mut[0], 'without_change': without[0],
                                    'command': f'cargo test --offline -p elvis-core --lib {filt} (demo {mode} {rel})'}
    meta['existing_suite_with_change'] = suite
    meta['checks_run_against_it'] = detected
    json.dump(meta, open(os.path.join(d, 'meta.json'), 'w'), indent=1)
sys.exit(0 if ok else 1)
