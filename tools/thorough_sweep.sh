#!/bin/bash
# runs every thorough check once, sequentially, and prints one line per check (used through `vp run` to calibrate the thorough tier)
for p in ${@:-C04 C16 C11 C09 C10 C18 C14 C08 C15 C07 C17 C03 C12 C01}; do
  s=$(date +%s); ./check $p thorough > thorough-$p.out 2>&1; rc=$?; e=$(date +%s)
  echo "$p rc=$rc wall=$((e-s))s $(grep -E '^\[' thorough-$p.out | cut -c1-170)"
  grep -E "^VIOLATION|^INCONCLUSIVE" thorough-$p.out | cut -c1-250 | head -5
done
echo THOROUGH-SWEEP-DONE
