// Helpers + Kani harnesses appended to crate::message (child module: sees Message's private fields).
use super::*;

/// "length-only" message: no chunks, cached length `len`.  The real cut / slice / concatenate / remove_front run
/// unchanged on it (their chunk loops see an empty deque); used where the code under test never looks at payload bytes.
pub(crate) fn len_only(len: usize) -> Message {
    Message { chunks: VecDeque::new(), len }
}

/// C07 cross-check (Kani, real VecDeque/Arc): single-chunk message of 3 arbitrary bytes, cut at every position n in 0..=3:
/// the cut-off part and the remainder have the right lengths and the right byte at an arbitrary index.
#[kani::proof]
#[kani::unwind(6)]
fn c07_kani_single_chunk_cut() {
    let data: [u8; 3] = kani::any();
    let mut m = Message::new(data);
    let n: usize = kani::any();
    kani::assume(n <= 3);
    let head = m.cut(n);
    assert!(head.len() == n && m.len() == 3 - n);
    let i: usize = kani::any();
    kani::assume(i < 3);
    if i < n {
        assert!(head.iter().nth(i) == Some(data[i]));
    } else {
        assert!(m.iter().nth(i - n) == Some(data[i]));
    }
    kani::cover!(n == 0);
    kani::cover!(n == 3);
    kani::cover!(n == 1 && i == 2);
    core::mem::forget(head); core::mem::forget(m);
}

/// C07 cross-check (Kani): header + body (two chunks of 2 and 3 arbitrary bytes), remove_front(n) for every n in 0..=5:
/// length and an arbitrary remaining byte agree with the plain byte-vector result.
#[kani::proof]
#[kani::unwind(8)]
fn c07_kani_two_chunk_remove_front() {
    let h: [u8; 2] = kani::any();
    let b: [u8; 3] = kani::any();
    let all = [h[0], h[1], b[0], b[1], b[2]];
    let mut m = Message::new(b);
    m.header(h);
    let n: usize = kani::any();
    kani::assume(n <= 5);
    m.remove_front(n);
    assert!(m.len() == 5 - n);
    let i: usize = kani::any();
    kani::assume(i < 5 - n);
    assert!(m.iter().nth(i) == Some(all[n + i]));
    kani::cover!(n == 2);
    kani::cover!(n == 3 && i == 1);
    core::mem::forget(m);
}
