// Kani harnesses for the ARP packet codec (child module of protocols::arp::arp_parsing).
use super::*;

fn eq28(a: &[u8], b: &[u8; 28]) -> bool {
    if a.len() != 28 { return false; }
    let mut i = 0;
    while i < 28 {
        if a[i] != b[i] { return false; }
        i += 1;
    }
    true
}

/// R1: for every ARP packet value (any htype/ptype/hlen/plen, both operations, 48-bit MACs, any IPs)
/// from_bytes(build(v)) == v, and the bytes follow the RFC 826 IPv4-over-Ethernet layout.
#[kani::proof]
#[kani::unwind(30)]
fn c08_arp_roundtrip_value() {
    let sm: u64 = kani::any();
    let tm: u64 = kani::any();
    kani::assume(sm < (1u64 << 48) && tm < (1u64 << 48));
    let sip: [u8; 4] = kani::any();
    let tip: [u8; 4] = kani::any();
    let v = ArpPacket {
        htype: kani::any(), ptype: kani::any(), hlen: kani::any(), plen: kani::any(),
        oper: if kani::any() { Operation::Request } else { Operation::Reply },
        sender_mac: sm, sender_ip: Ipv4Address::new(sip), target_mac: tm, target_ip: Ipv4Address::new(tip),
    };
    let bytes = v.build();
    assert!(bytes.len() == ArpPacket::SIZE);
    let op: u16 = if v.oper == Operation::Request { 1 } else { 2 };
    let e: [u8; 28] = [(v.htype >> 8) as u8, v.htype as u8, (v.ptype >> 8) as u8, v.ptype as u8, v.hlen, v.plen, (op >> 8) as u8, op as u8,
        (sm >> 40) as u8, (sm >> 32) as u8, (sm >> 24) as u8, (sm >> 16) as u8, (sm >> 8) as u8, sm as u8, sip[0], sip[1], sip[2], sip[3],
        (tm >> 40) as u8, (tm >> 32) as u8, (tm >> 24) as u8, (tm >> 16) as u8, (tm >> 8) as u8, tm as u8, tip[0], tip[1], tip[2], tip[3]];
    assert!(eq28(&bytes, &e));
    let back = ArpPacket::from_bytes(bytes.iter().cloned()).unwrap();
    assert!(back == v);
    kani::cover!(sm == (1u64 << 48) - 1);
    core::mem::forget(bytes);
}

/// R2: every accepted 28-byte string re-encodes to itself.
#[kani::proof]
#[kani::unwind(30)]
fn c08_arp_reencode_reproduces_accepted_bytes() {
    let b: [u8; 28] = kani::any();
    if let Ok(p) = ArpPacket::from_bytes(b.iter().cloned()) {
        let out = p.build();
        assert!(eq28(&out, &b));
        kani::cover!(p.oper == Operation::Reply);
        core::mem::forget(out);
    }
}

/// new_request / new_reply produce the Ethernet/IPv4 constants and the given addresses.
#[kani::proof]
fn c08_arp_constructors() {
    let sm: u64 = kani::any();
    let tm: u64 = kani::any();
    let sip: [u8; 4] = kani::any();
    let tip: [u8; 4] = kani::any();
    let q = ArpPacket::new_request(sm, Ipv4Address::new(sip), Ipv4Address::new(tip));
    assert!(q.htype == 1 && q.ptype == 0x0800 && q.hlen == 6 && q.plen == 4 && q.oper == Operation::Request);
    assert!(q.sender_mac == sm && q.sender_ip.to_bytes() == sip && q.target_ip.to_bytes() == tip);
    let r = ArpPacket::new_reply(sm, Ipv4Address::new(sip), tm, Ipv4Address::new(tip));
    assert!(r.htype == 1 && r.ptype == 0x0800 && r.hlen == 6 && r.plen == 4 && r.oper == Operation::Reply);
    assert!(r.sender_mac == sm && r.target_mac == tm && r.sender_ip.to_bytes() == sip && r.target_ip.to_bytes() == tip);
    kani::cover!(true);
}

/// C14: no byte string of length 0..=30 makes the ARP decoder panic.
#[kani::proof]
#[kani::unwind(32)]
fn c14_arp_decoder_never_panics() {
    let b: [u8; 30] = kani::any();
    let n: usize = kani::any();
    kani::assume(n <= 30);
    match ArpPacket::from_bytes(b[..n].iter().cloned()) {
        Ok(_) => { assert!(n >= 28); kani::cover!(n == 30); }
        Err(e) => {
            kani::cover!(matches!(e, ParseError::HeaderTooShort) && n == 27);
            kani::cover!(matches!(e, ParseError::InvalidOperation));
        }
    }
}
