// Kani harnesses for IPv4 fragmentation arithmetic (child module of protocols::ipv4::fragmentation). C10.
// The payload is abstracted to its length (crate::message::verif_kani::len_only): fragment() never looks at payload
// bytes, only cuts.  Payload *content* placement is decided by the mirx part of C10.
use super::*;
use crate::message::verif_kani::len_only;
use crate::protocols::ipv4::ipv4_parsing::{ControlFlags, TypeOfService};
use crate::protocols::ipv4::Ipv4Address;

fn any_header(total_length: u16, frag: u16, df: bool, mf: bool) -> Ipv4Header {
    let src: [u8; 4] = kani::any();
    let dst: [u8; 4] = kani::any();
    Ipv4Header {
        ihl: 5,
        type_of_service: TypeOfService::from(kani::any::<u8>()),
        total_length,
        identification: kani::any(),
        fragment_offset: frag,
        flags: ControlFlags::new(!df, !mf),
        time_to_live: kani::any(),
        protocol: kani::any(),
        checksum: kani::any(),
        source: Ipv4Address::new(src),
        destination: Ipv4Address::new(dst),
    }
}

fn same_other_fields(a: &Ipv4Header, b: &Ipv4Header) -> bool {
    a.ihl == b.ihl && a.type_of_service == b.type_of_service && a.identification == b.identification
        && a.flags.may_fragment() == b.flags.may_fragment() && a.time_to_live == b.time_to_live && a.protocol == b.protocol
        && a.source == b.source && a.destination == b.destination
}

/// One application of fragment() to an arbitrary datagram *or fragment* (arbitrary incoming offset and MF), all MTUs
/// 68..=65535, all total lengths 20..=65535, DF arbitrary, at most K pieces: pass-through when it fits, Discard when it
/// does not fit and DF is set, otherwise pieces that each fit the MTU, carry 8-byte-multiple payloads except the last,
/// offsets advancing by the previous payload/8 from the incoming offset, MF set on all but the last which keeps the
/// incoming MF, lengths summing to the incoming payload, every other header field preserved.
fn fragment_step<const K: usize>() {
    let mtu: u16 = kani::any();
    kani::assume(mtu >= 68);
    let total: u16 = kani::any();
    kani::assume(total >= 20);
    let frag: u16 = kani::any();
    kani::assume(frag <= 0x1fff);
    let df: bool = kani::any();
    let mf: bool = kani::any();
    let payload = (total - 20) as usize;
    let per = (((mtu - 20) / 8) * 8) as usize;
    kani::assume(payload <= K * per);                       // bound: at most K pieces
    kani::assume(frag as usize + payload / 8 <= 0x1fff);    // the datagram this fragment belongs to is itself representable
    let h = any_header(total, frag, df, mf);
    let r = fragment(h, len_only(payload), mtu);
    match r {
        Fragments::DontFragment((h2, b2)) => {
            assert!(total <= mtu);
            assert!(h2 == h && b2.len() == payload);
            kani::cover!(total == mtu);
            core::mem::forget(b2);
        }
        Fragments::Discard => { assert!(total > mtu && df); kani::cover!(true); }
        Fragments::Fragmented(v) => {
            assert!(total > mtu && !df);
            let n = v.len();
            assert!(n >= 2 && n <= K);
            let mut off = frag as usize;
            let mut sum = 0usize;
            let mut i = 0;
            while i < n {
                let (fh, fb) = &v[i];
                assert!(fh.total_length <= mtu);
                assert!(fh.total_length as usize == 20 + fb.len());
                assert!(fh.fragment_offset as usize == off);
                assert!(same_other_fields(fh, &h));
                if i + 1 < n {
                    assert!(fb.len() % 8 == 0 && fb.len() > 0);
                    assert!(!fh.flags.is_last_fragment());
                    assert!(fb.len() == per);           // greedy: every piece but the last is as large as the MTU allows
                } else {
                    assert!(fh.flags.is_last_fragment() == !mf);
                    assert!(fb.len() > 0);
                }
                off += fb.len() / 8;
                sum += fb.len();
                i += 1;
            }
            assert!(sum == payload);
            kani::cover!(n == K);
            kani::cover!(n == 2 && (mtu - 20) % 8 != 0);
            kani::cover!(mf && frag > 0);
            core::mem::forget(v);
        }
    }
}

/// C10 step, at most 3 pieces
#[kani::proof]
#[kani::unwind(6)]
fn c10_fragment_step_up_to_3_pieces() { fragment_step::<3>() }

/// C10 step, at most 6 pieces
#[kani::proof]
#[kani::unwind(9)]
fn c10_fragment_step_up_to_6_pieces() { fragment_step::<6>() }

/// Chain of two decreasing MTUs: fragment for mtu1, then re-fragment every piece for mtu2 < mtu1 (at most 2 x 2
/// pieces): relative to the ORIGINAL datagram the final pieces are consecutive (offset_i*8 = bytes before piece i),
/// 8-byte aligned, sum to the original payload, and only the piece that ends the original datagram has MF clear.
#[kani::proof]
#[kani::unwind(6)]
fn c10_fragment_chain_of_two_mtus() {
    let mtu1: u16 = kani::any();
    let mtu2: u16 = kani::any();
    kani::assume(mtu2 >= 68 && mtu2 < mtu1);
    let total: u16 = kani::any();
    kani::assume(total >= 20);
    let payload = (total - 20) as usize;
    let per1 = (((mtu1 - 20) / 8) * 8) as usize;
    let per2 = (((mtu2 - 20) / 8) * 8) as usize;
    kani::assume(payload <= 2 * per1 && per1 <= 2 * per2);
    let h = any_header(total, 0, false, false);
    if let Fragments::Fragmented(v) = fragment(h, len_only(payload), mtu1) {
        let mut off = 0usize;
        let mut i = 0;
        let n = v.len();
        assert!(n == 2);
        while i < n {
            let (fh, fb) = &v[i];
            let last_outer = i + 1 == n;
            match fragment(*fh, len_only(fb.len()), mtu2) {
                Fragments::DontFragment((gh, gb)) => {
                    assert!(gh.fragment_offset as usize * 8 == off);
                    assert!(gh.flags.is_last_fragment() == last_outer);
                    off += gb.len();
                    core::mem::forget(gb);
                }
                Fragments::Fragmented(w) => {
                    let m = w.len();
                    let mut j = 0;
                    while j < m {
                        let (gh, gb) = &w[j];
                        assert!(gh.total_length <= mtu2 && gh.total_length as usize == 20 + gb.len());
                        assert!(gh.fragment_offset as usize * 8 == off);
                        assert!(gh.flags.is_last_fragment() == (last_outer && j + 1 == m));
                        assert!(same_other_fields(gh, &h));
                        off += gb.len();
                        j += 1;
                    }
                    kani::cover!(m == 2 && !last_outer);
                    kani::cover!(m == 2 && last_outer);
                    core::mem::forget(w);
                }
                Fragments::Discard => { assert!(false); }
            }
            i += 1;
        }
        assert!(off == payload);
        core::mem::forget(v);
    }
}
