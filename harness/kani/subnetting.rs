// Kani harnesses for subnet arithmetic (child module of protocols::arp::subnetting). C09.
use super::*;

fn any_net() -> (Ipv4Net, u32, u32) {
    let ip: u32 = kani::any();
    let n: u32 = kani::any();
    kani::assume(n <= 32);
    (Ipv4Net::new(Ipv4Address::from(ip), Ipv4Mask::from_bitcount(n)), ip, n)
}

/// reference mask for a prefix length, computed with 64-bit arithmetic
fn ref_mask(n: u32) -> u32 {
    let n = if n > 32 { 32 } else { n };
    (((1u64 << n) - 1) << (32 - n)) as u32
}

/// from_bitcount(n) has min(n,32) leading ones for every u32 n; count_ones inverts it; try_from(u32) accepts exactly
/// the contiguous masks.
#[kani::proof]
fn c09_mask_construction() {
    let n: u32 = kani::any();
    let m = Ipv4Mask::from_bitcount(n);
    assert!(m.to_u32() == ref_mask(n));
    assert!(m.count_ones() == if n > 32 { 32 } else { n });
    let raw: u32 = kani::any();
    let contiguous = raw.leading_ones() + raw.trailing_zeros() == 32 || raw == 0 || raw == u32::MAX;
    match Ipv4Mask::try_from(raw) {
        Ok(mm) => { assert!(contiguous && mm.to_u32() == raw); }
        Err(e) => { assert!(!contiguous && e == raw); }
    }
    assert!(m.ips_in_net() == (!(m.to_u32()) as u64) + 1);
    kani::cover!(n == 31);
    kani::cover!(n > 32);
    kani::cover!(contiguous && raw != 0 && raw != u32::MAX);
}

/// For every network (any address, any mask length 0..=32): id/broadcast never overflow, the id is the address with
/// host bits cleared, broadcast = id | hostmask, and contains(a) <=> id <= a <= broadcast for every address a.
#[kani::proof]
fn c09_contains_iff_in_range() {
    let (net, ip, n) = any_net();
    let id = net.id().to_u32();
    let bc = net.broadcast().to_u32();
    assert!(id == ip & ref_mask(n));
    assert!(bc == id | !ref_mask(n));
    assert!(id <= bc);
    let a: u32 = kani::any();
    assert!(net.contains(Ipv4Address::from(a)) == (id <= a && a <= bc));
    let r = net.range();
    assert!(r.start().to_u32() == id && r.end().to_u32() == bc);
    assert!(net.mask().count_ones() == n);
    kani::cover!(n == 0);
    kani::cover!(n == 32);
    kani::cover!(bc == u32::MAX && n == 7);
}

/// overlaps <=> the address ranges intersect (witness-free: interval intersection), and is symmetric; two networks
/// overlap exactly when one contains the other's id.
#[kani::proof]
fn c09_overlaps_iff_ranges_intersect() {
    let (a, _, _) = any_net();
    let (b, _, _) = any_net();
    let (a0, a1, b0, b1) = (a.id().to_u32(), a.broadcast().to_u32(), b.id().to_u32(), b.broadcast().to_u32());
    let inter = a0 <= b1 && b0 <= a1;
    assert!(a.overlaps(b) == inter);
    assert!(b.overlaps(a) == inter);
    assert!(inter == (a.contains(b.id()) || b.contains(a.id())));
    kani::cover!(inter && a0 != b0);
    kani::cover!(!inter);
}

/// TryFrom<RangeInclusive>: succeeds exactly for aligned power-of-two blocks, returns that block; the error
/// variants are Empty (start > end), Size (length not a power of two), Start (misaligned).
#[kani::proof]
fn c09_range_to_net() {
    let s: u32 = kani::any();
    let e: u32 = kani::any();
    let r = Ipv4Net::try_from(Ipv4Address::from(s)..=Ipv4Address::from(e));
    let len: u64 = if s <= e { (e - s) as u64 + 1 } else { 0 };
    let pow2 = len != 0 && (len & (len - 1)) == 0;
    let aligned = pow2 && (s as u64) % len == 0;
    match r {
        Ok(net) => {
            assert!(aligned);
            assert!(net.id().to_u32() == s && net.broadcast().to_u32() == e);
            assert!(net.mask().ips_in_net() == len);
        }
        Err(TryFromRangeError::Empty) => assert!(s > e),
        Err(TryFromRangeError::Size) => assert!(s <= e && !pow2),
        Err(TryFromRangeError::Start) => assert!(pow2 && !aligned),
    }
    kani::cover!(aligned && len == 1u64 << 32);
    kani::cover!(aligned && len == 1);
    kani::cover!(pow2 && !aligned);
}

/// a network converted to its range and back is itself (every mask length)
#[kani::proof]
fn c09_net_range_roundtrip() {
    let (net, _, n) = any_net();
    let back = Ipv4Net::try_from(net.range()).unwrap();
    assert!(back == net);
    kani::cover!(n == 13);
}

fn digit(d: u8) -> u8 { b'0' + d }

/// cidr_to_ip("A.200.0.9/8") with the first octet A written with three symbolic digits 100..=255: the parsed
/// address has exactly that octet (decimal place values, no truncation).
#[kani::proof]
#[kani::unwind(14)]
fn x09_cidr_octet_digits() {
    let a: u8 = kani::any();
    kani::assume(a >= 100);
    let buf = [digit(a / 100), digit((a / 10) % 10), digit(a % 10), b'.', b'2', b'0', b'0', b'.', b'0', b'.', b'9', b'/', b'8'];
    let s = core::str::from_utf8(&buf).unwrap();
    let (ip, mask) = cidr_to_ip(s).unwrap();
    assert!(ip.to_bytes() == [a, 200, 0, 9]);
    assert!(mask.to_u32() == 0xff00_0000);
    kani::cover!(a == 255);
}
