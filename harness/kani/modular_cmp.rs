// Kani harnesses for C12 (comparison primitives). Appended as a child module of
// protocols::tcp::tcb::modular_cmp in a scratch copy of the sources.
use super::*;

/// reference: b is strictly after a in circular order, distance d = b - a in 1..2^31-1
fn ref_lt(a: u32, b: u32) -> bool {
    let d = b.wrapping_sub(a);
    d != 0 && d < (1u32 << 31)
}

#[kani::proof]
fn c12_lt_gt_agree_with_circular_order() {
    let a: u32 = kani::any();
    let d: u32 = kani::any();
    kani::assume(d < (1u32 << 31));
    let b = a.wrapping_add(d);
    // strict
    assert_eq!(mod_lt(a, b), d != 0);
    assert_eq!(mod_gt(b, a), d != 0);
    assert!(!mod_lt(b, a));
    assert!(!mod_gt(a, b));
    assert_eq!(mod_lt(a, b), ref_lt(a, b));
    kani::cover!(d == (1u32 << 31) - 1);
    kani::cover!(b < a);
}

#[kani::proof]
fn c12_leq_geq_agree_with_circular_order() {
    let a: u32 = kani::any();
    let d: u32 = kani::any();
    kani::assume(d < (1u32 << 31));
    let b = a.wrapping_add(d);
    // non-strict: a <= b always holds for d < 2^31; b <= a only when d == 0
    assert!(mod_leq(a, b));
    assert!(mod_geq(b, a));
    assert_eq!(mod_leq(b, a), d == 0);
    assert_eq!(mod_geq(a, b), d == 0);
    // strict / non-strict consistency
    assert_eq!(mod_leq(a, b), mod_lt(a, b) || a == b);
    assert_eq!(mod_geq(b, a), mod_gt(b, a) || a == b);
    kani::cover!(d == (1u32 << 31) - 1);
    kani::cover!(b < a);
}

fn any_cmp() -> ModCmp {
    if kani::any() { Lt } else { Leq }
}

fn ref_cmp(x: u32, c: ModCmp, y: u32) -> bool {
    // x (c) y for y = x + d, d < 2^31
    let d = y.wrapping_sub(x);
    match c {
        Lt => d != 0 && d < (1u32 << 31),
        Leq => d < (1u32 << 31),
    }
}

#[kani::proof]
fn c12_bounded_matches_reference_interval() {
    // a .. c is an interval shorter than 2^31; b anywhere
    let a: u32 = kani::any();
    let len: u32 = kani::any();
    kani::assume(len < (1u32 << 31) - 1);
    let c = a.wrapping_add(len);
    let b: u32 = kani::any();
    let c1 = any_cmp();
    let c2 = any_cmp();
    let off = b.wrapping_sub(a);
    // reference: b in the circular interval, by offsets from a
    let lo_ok = match c1 { Lt => off != 0, Leq => true };
    let hi_ok = match c2 { Lt => off < len, Leq => off <= len };
    let expect = lo_ok && hi_ok;
    assert_eq!(mod_bounded(a, c1, b, c2, c), expect);
    // consistency with the binary primitives whenever b is within 2^31 of both ends
    if off < (1u32 << 31) && c.wrapping_sub(b) < (1u32 << 31) {
        assert_eq!(expect, ref_cmp(a, c1, b) && ref_cmp(b, c2, c));
    }
    kani::cover!(expect && c < a);
    kani::cover!(!expect);
}

#[kani::proof]
fn c12_translation_invariance() {
    let a: u32 = kani::any();
    let b: u32 = kani::any();
    let c: u32 = kani::any();
    let k: u32 = kani::any();
    let c1 = any_cmp();
    let c2 = any_cmp();
    let (a2, b2, c3) = (a.wrapping_add(k), b.wrapping_add(k), c.wrapping_add(k));
    assert_eq!(mod_lt(a, b), mod_lt(a2, b2));
    assert_eq!(mod_leq(a, b), mod_leq(a2, b2));
    assert_eq!(mod_gt(a, b), mod_gt(a2, b2));
    assert_eq!(mod_geq(a, b), mod_geq(a2, b2));
    assert_eq!(mod_bounded(a, c1, b, c2, c), mod_bounded(a2, c1, b2, c2, c3));
    kani::cover!(a2 < a && b2 > b);
}
