// Kani harnesses for the IPv4 header codec (child module of protocols::ipv4::ipv4_parsing).
// c08_* : round trips + RFC 791 reference; c14_* : decoder never panics; c18_* : checksum build.
use super::*;

/// RFC 1071 one's-complement sum over 16-bit big-endian words (independent of utility::Checksum):
/// 32-bit accumulate, fold carries, complement.
pub(crate) fn rfc1071(words: &[u16]) -> u16 {
    let mut acc: u32 = 0;
    let mut i = 0;
    while i < words.len() {
        acc += words[i] as u32;
        i += 1;
    }
    while acc >> 16 != 0 {
        acc = (acc & 0xffff) + (acc >> 16);
    }
    !(acc as u16)
}

/// Reference encoder written from the RFC 791 section 3.1 diagram.  `with_checksum` = false
/// leaves the checksum field zero (what the default build, which compiles checksums out, emits).
#[allow(clippy::too_many_arguments)]
fn ref_ipv4(tos: u8, total_length: u16, id: u16, df: bool, mf: bool, frag: u16, ttl: u8, proto: u8,
            src: [u8; 4], dst: [u8; 4], with_checksum: bool) -> [u8; 20] {
    let mut b = [0u8; 20];
    b[0] = 0x45; // version 4, IHL 5
    b[1] = tos;
    b[2] = (total_length >> 8) as u8;
    b[3] = total_length as u8;
    b[4] = (id >> 8) as u8;
    b[5] = id as u8;
    let fl: u16 = ((df as u16) << 14) | ((mf as u16) << 13) | (frag & 0x1fff);
    b[6] = (fl >> 8) as u8;
    b[7] = fl as u8;
    b[8] = ttl;
    b[9] = proto;
    b[12] = src[0]; b[13] = src[1]; b[14] = src[2]; b[15] = src[3];
    b[16] = dst[0]; b[17] = dst[1]; b[18] = dst[2]; b[19] = dst[3];
    if with_checksum {
        let mut w = [0u16; 10];
        let mut i = 0;
        while i < 10 {
            w[i] = ((b[2 * i] as u16) << 8) | b[2 * i + 1] as u16;
            i += 1;
        }
        let c = rfc1071(&w);
        b[10] = (c >> 8) as u8;
        b[11] = c as u8;
    }
    b
}

struct Fields { tos: u8, total_length: u16, id: u16, df: bool, mf: bool, frag: u16, ttl: u8, proto: u8, src: [u8; 4], dst: [u8; 4] }

fn any_fields() -> Fields {
    let f = Fields { tos: kani::any(), total_length: kani::any(), id: kani::any(), df: kani::any(), mf: kani::any(),
                     frag: kani::any(), ttl: kani::any(), proto: kani::any(), src: kani::any(), dst: kani::any() };
    kani::assume(f.tos & 0b11 == 0);          // reserved TOS bits clear (documented validity)
    kani::assume(f.total_length >= 20);       // a datagram is at least its header
    kani::assume(f.frag <= 0x1fff);
    f
}

fn header_of(f: &Fields, checksum: u16) -> Ipv4Header {
    Ipv4Header {
        ihl: 5,
        type_of_service: TypeOfService(f.tos),
        total_length: f.total_length,
        identification: f.id,
        fragment_offset: f.frag,
        flags: ControlFlags::new(!f.df, !f.mf),
        time_to_live: f.ttl,
        protocol: f.proto,
        checksum,
        source: Ipv4Address::new(f.src),
        destination: Ipv4Address::new(f.dst),
    }
}

fn eq20(a: &[u8], b: &[u8; 20]) -> bool {
    if a.len() != 20 { return false; }
    let mut i = 0;
    while i < 20 {
        if a[i] != b[i] { return false; }
        i += 1;
    }
    true
}

/// R1+R3 (default build): for every representable header value, serialize() equals the RFC 791
/// reference encoding byte for byte (checksum field zero because checksums are compiled out), and
/// from_bytes of those bytes gives back the same value.
#[kani::proof]
#[kani::unwind(22)]
fn c08_ipv4_encode_matches_rfc791_and_roundtrips() {
    let f = any_fields();
    let h = header_of(&f, 0);
    let bytes = h.serialize().unwrap();
    let r = ref_ipv4(f.tos, f.total_length, f.id, f.df, f.mf, f.frag, f.ttl, f.proto, f.src, f.dst, false);
    assert!(eq20(&bytes, &r));
    let back = Ipv4Header::from_bytes(bytes.iter().cloned()).unwrap();
    assert!(back == h);
    // the decoder accepts the reference's output and extracts the same fields
    let d = Ipv4Header::from_bytes(r.iter().cloned()).unwrap();
    assert!(d.total_length == f.total_length && d.identification == f.id && d.fragment_offset == f.frag);
    assert!(d.flags.may_fragment() == !f.df && d.flags.is_last_fragment() == !f.mf);
    assert!(d.time_to_live == f.ttl && d.protocol == f.proto && d.type_of_service.as_u8() == f.tos);
    assert!(d.source.to_bytes() == f.src && d.destination.to_bytes() == f.dst);
    kani::cover!(f.df && f.mf && f.frag == 0x1fff);
    kani::cover!(f.total_length == 65535);
    core::mem::forget(bytes);
}

/// R2: for every 20-byte string the decoder accepts, re-encoding the decoded value reproduces
/// exactly those bytes (no panic on the way).
#[kani::proof]
#[kani::unwind(22)]
fn c08_ipv4_reencode_reproduces_accepted_bytes() {
    let b: [u8; 20] = kani::any();
    if let Ok(h) = Ipv4Header::from_bytes(b.iter().cloned()) {
        let out = h.serialize().unwrap();
        assert!(eq20(&out, &b));
        kani::cover!(h.total_length == 20);
        kani::cover!(h.fragment_offset != 0 && !h.flags.is_last_fragment());
        core::mem::forget(out);
    }
}

/// The builder used by Ipv4::send: new(src,dst,proto,payload_len) + setters equals the reference
/// with total_length = payload_len + 20, TTL 30, and reports OverlyLongPayload / OverlyLongFragmentOffset
/// exactly when the value is not representable.
#[kani::proof]
#[kani::unwind(22)]
fn c08_ipv4_builder_matches_reference() {
    let src: [u8; 4] = kani::any();
    let dst: [u8; 4] = kani::any();
    let proto: u8 = kani::any();
    let plen: u16 = kani::any();
    let id: u16 = kani::any();
    let frag: u16 = kani::any();
    let df: bool = kani::any();
    let mf: bool = kani::any();
    let r = Ipv4HeaderBuilder::new(Ipv4Address::new(src), Ipv4Address::new(dst), proto, plen)
        .identification(id)
        .fragment_offset(frag)
        .flags(ControlFlags::new(!df, !mf))
        .build();
    match r {
        Ok(bytes) => {
            assert!(plen <= 65535 - 20 && frag <= 0x1fff);
            let e = ref_ipv4(0, plen + 20, id, df, mf, frag, 30, proto, src, dst, false);
            assert!(eq20(&bytes, &e));
            kani::cover!(plen == 65515);
            core::mem::forget(bytes);
        }
        Err(HeaderBuildError::OverlyLongPayload) => assert!(plen > 65535 - 20),
        Err(HeaderBuildError::OverlyLongFragmentOffset) => assert!(frag > 0x1fff),
    }
}

/// ControlFlags / TypeOfService accessors agree with the RFC bit positions for every byte.
#[kani::proof]
fn c08_ipv4_flag_accessors() {
    let df: bool = kani::any();
    let mf: bool = kani::any();
    let mut c = ControlFlags::new(!df, !mf);
    assert!(c.as_u8() == ((df as u8) << 1) | mf as u8);
    assert!(c.may_fragment() == !df && c.is_last_fragment() == !mf);
    let v: bool = kani::any();
    c.set_may_fragment(v);
    assert!(c.may_fragment() == v && c.is_last_fragment() == !mf);
    let w: bool = kani::any();
    c.set_is_last_fragment(w);
    assert!(c.may_fragment() == v && c.is_last_fragment() == w);
    let t: u8 = kani::any();
    kani::assume(t & 3 == 0);
    let tos = TypeOfService::from(t);
    assert!(tos.precedence() as u8 == t >> 5);
    assert!(tos.delay() as u8 == (t >> 4) & 1);
    assert!(tos.throughput() as u8 == (t >> 3) & 1);
    assert!(tos.reliability() as u8 == (t >> 2) & 1);
    assert!(TypeOfService::new(tos.precedence(), tos.delay(), tos.throughput(), tos.reliability()).as_u8() == t);
    kani::cover!(t == 0xfc);
}

/// C14: no byte string of length 0..=24 makes the decoder panic; it returns Ok or an Err value.
#[kani::proof]
#[kani::unwind(26)]
fn c14_ipv4_decoder_never_panics() {
    let b: [u8; 24] = kani::any();
    let n: usize = kani::any();
    kani::assume(n <= 24);
    let r = Ipv4Header::from_bytes(b[..n].iter().cloned());
    match r {
        Ok(h) => {
            assert!(n >= 20);
            // decoded values can be re-serialised without a crash (what ArpRouter does)
            let _ = h.serialize().map(core::mem::forget);
            kani::cover!(n == 24);
        }
        Err(e) => {
            kani::cover!(matches!(e, ParseError::HeaderTooShort) && n == 19);
            kani::cover!(matches!(e, ParseError::UsedReservedFlag));
        }
    }
}

// ---------------------------------------------------------------- compute_checksum build (C18)

/// C18 accumulator: Checksum::add_u16 / add_u8 / add_u32 over 8 arbitrary words + 1 odd byte equals the
/// RFC 1071 reference sum; as_u16 is its complement except that a zero result is sent as 0xffff.
#[cfg(feature = "compute_checksum")]
#[kani::proof]
#[kani::unwind(12)]
fn c18_accumulator_matches_rfc1071() {
    let w: [u16; 8] = kani::any();
    let odd: u8 = kani::any();
    let mut c = Checksum::new();
    c.add_u16(w[0]);
    c.add_u8((w[1] >> 8) as u8, w[1] as u8);
    c.add_u32([(w[2] >> 8) as u8, w[2] as u8, (w[3] >> 8) as u8, w[3] as u8]);
    let rest = [(w[4] >> 8) as u8, w[4] as u8, (w[5] >> 8) as u8, w[5] as u8, (w[6] >> 8) as u8, w[6] as u8,
                (w[7] >> 8) as u8, w[7] as u8, odd];
    c.accumulate_remainder(rest.iter().cloned());
    let all = [w[0], w[1], w[2], w[3], w[4], w[5], w[6], w[7], (odd as u16) << 8];
    let expect = rfc1071(&all);
    let got = c.as_u16();
    // one's complement has two zeros: the reference's 0x0000 may be transmitted as 0xffff
    assert!(got == expect || (expect == 0 && got == 0xffff));
    kani::cover!(expect == 0);
    kani::cover!(expect == 0xffff);
}

/// C18 emission: every header built by Ipv4HeaderBuilder verifies under RFC 1071 (sum of the ten words
/// including the checksum field is 0xffff).
#[cfg(feature = "compute_checksum")]
#[kani::proof]
#[kani::unwind(22)]
fn c18_ipv4_emitted_checksum_verifies() {
    let f = any_fields();
    let h = header_of(&f, 0);
    let bytes = h.serialize().unwrap();
    let mut w = [0u16; 10];
    let mut i = 0;
    while i < 10 {
        w[i] = ((bytes[2 * i] as u16) << 8) | bytes[2 * i + 1] as u16;
        i += 1;
    }
    // all ten words; the checksum word is summed last (order is irrelevant for a one's-complement sum, this one keeps the SAT problem small)
    assert!(rfc1071(&[w[0], w[1], w[2], w[3], w[4], w[6], w[7], w[8], w[9], w[5]]) == 0);
    kani::cover!(w[5] == 0xffff);
    kani::cover!(w[5] != 0xffff && w[5] != 0);
    core::mem::forget(bytes);
}

/// C18 acceptance <=> reference: for an arbitrary, otherwise well-formed 20-byte header the decoder
/// returns Ok exactly when the RFC 1071 verification passes; in particular it accepts every
/// reference-produced header (also when the reference checksum is 0x0000) and rejects every detectable corruption.
#[cfg(feature = "compute_checksum")]
#[kani::proof]
#[kani::unwind(22)]
fn c18_ipv4_accepts_iff_reference_verifies() {
    let b: [u8; 20] = kani::any();
    kani::assume(b[0] == 0x45 && b[1] & 3 == 0 && b[6] & 0x80 == 0);
    kani::assume(((b[2] as u16) << 8 | b[3] as u16) >= 20);   // total length covers at least the header
    let mut w = [0u16; 10];
    let mut i = 0;
    while i < 10 {
        w[i] = ((b[2 * i] as u16) << 8) | b[2 * i + 1] as u16;
        i += 1;
    }
    let verifies = rfc1071(&[w[0], w[1], w[2], w[3], w[4], w[6], w[7], w[8], w[9], w[5]]) == 0;   // checksum word summed last
    let r = Ipv4Header::from_bytes(b.iter().cloned());
    assert!(r.is_ok() == verifies);
    kani::cover!(verifies && b[10] == 0 && b[11] == 0);
    kani::cover!(verifies);
    kani::cover!(!verifies);
}
