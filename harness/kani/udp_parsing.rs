// Kani harnesses for the UDP header codec (child module of protocols::udp::udp_parsing).
use super::*;

fn rfc1071_bytes(parts: &[&[u8]]) -> u16 {
    // RFC 1071 over the concatenation of `parts` (each of even length except possibly the last)
    let mut acc: u32 = 0;
    let mut p = 0;
    while p < parts.len() {
        let b = parts[p];
        let mut i = 0;
        while i + 1 < b.len() {
            acc += ((b[i] as u32) << 8) | b[i + 1] as u32;
            i += 2;
        }
        if i < b.len() {
            acc += (b[i] as u32) << 8;
        }
        p += 1;
    }
    while acc >> 16 != 0 {
        acc = (acc & 0xffff) + (acc >> 16);
    }
    !(acc as u16)
}

/// reference encoder from the RFC 768 diagram (checksum field left zero)
fn ref_udp(sport: u16, dport: u16, length: u16) -> [u8; 8] {
    [(sport >> 8) as u8, sport as u8, (dport >> 8) as u8, dport as u8, (length >> 8) as u8, length as u8, 0, 0]
}

fn eq8(a: &[u8], b: &[u8; 8]) -> bool {
    if a.len() != 8 { return false; }
    let mut i = 0;
    while i < 8 {
        if a[i] != b[i] { return false; }
        i += 1;
    }
    true
}

/// R1+R3 (default build): for all ports, addresses and all payload lengths 0..=70000 (crossing the 16-bit
/// limit) build_udp_header equals the RFC 768 reference (length = payload + 8, checksum field zero since
/// checksums are compiled out), fails with OverlyLongPayload exactly when payload + 8 > 65535, and the
/// decoder gives the same fields back.
#[kani::proof]
#[kani::unwind(10)]
fn c08_udp_encode_matches_rfc768_and_roundtrips() {
    let src: [u8; 4] = kani::any();
    let dst: [u8; 4] = kani::any();
    let sport: u16 = kani::any();
    let dport: u16 = kani::any();
    let text_len: usize = kani::any();
    kani::assume(text_len <= 70000);
    let r = build_udp_header(Ipv4Address::new(src), sport, Ipv4Address::new(dst), dport, core::iter::empty(), text_len);
    match r {
        Ok(bytes) => {
            assert!(text_len + 8 <= 65535);
            let e = ref_udp(sport, dport, (text_len + 8) as u16);
            assert!(eq8(&bytes, &e));
            let h = UdpHeader::from_bytes_ipv4(bytes.iter().cloned(), text_len + 8, Ipv4Address::new(src), Ipv4Address::new(dst)).unwrap();
            assert!(h.source == sport && h.destination == dport && h.length as usize == text_len + 8 && h.checksum == 0);
            // decoder accepts the reference's output too
            let h2 = UdpHeader::from_bytes_ipv4(e.iter().cloned(), text_len + 8, Ipv4Address::new(src), Ipv4Address::new(dst)).unwrap();
            assert!(h2 == h);
            kani::cover!(text_len == 65527);
            kani::cover!(text_len == 0);
            core::mem::forget(bytes);
        }
        Err(BuildHeaderError::OverlyLongPayload) => {
            assert!(text_len + 8 > 65535);
            kani::cover!(text_len == 65528);
        }
    }
}

/// R2: every accepted 8-byte header (packet_len arbitrary) re-encodes to the consumed bytes.
#[kani::proof]
#[kani::unwind(10)]
fn c08_udp_reencode_reproduces_accepted_bytes() {
    let b: [u8; 8] = kani::any();
    let src: [u8; 4] = kani::any();
    let dst: [u8; 4] = kani::any();
    let packet_len: usize = kani::any();
    kani::assume(packet_len >= 8);
    if let Ok(h) = UdpHeader::from_bytes_ipv4(b.iter().cloned(), packet_len, Ipv4Address::new(src), Ipv4Address::new(dst)) {
        assert!(h.length as usize == packet_len);
        let out = build_udp_header(Ipv4Address::new(src), h.source, Ipv4Address::new(dst), h.destination, core::iter::empty(), packet_len - 8).unwrap();
        assert!(eq8(&out, &b));
        kani::cover!(packet_len == 65535);
        core::mem::forget(out);
    }
}

/// C14: no byte string of length 0..=12 with any claimed packet_len makes the UDP decoder panic.
#[kani::proof]
#[kani::unwind(14)]
fn c14_udp_decoder_never_panics() {
    let b: [u8; 12] = kani::any();
    let n: usize = kani::any();
    kani::assume(n <= 12);
    let packet_len: usize = kani::any();
    let src: [u8; 4] = kani::any();
    let dst: [u8; 4] = kani::any();
    let r = UdpHeader::from_bytes_ipv4(b[..n].iter().cloned(), packet_len, Ipv4Address::new(src), Ipv4Address::new(dst));
    match r {
        Ok(_) => { assert!(n >= 8); kani::cover!(n == 12); }
        Err(e) => {
            kani::cover!(matches!(e, ParseError::HeaderTooShort) && n == 7);
            kani::cover!(matches!(e, ParseError::LengthMismatch));
        }
    }
}

// ---------------------------------------------------------------- compute_checksum build (C18)

/// C18 emission, payload length N (content arbitrary): the emitted UDP checksum verifies under RFC 1071 over
/// pseudo header + header + payload (sum incl. checksum is all ones) and is never transmitted as zero.
#[cfg(feature = "compute_checksum")]
fn udp_emit<const N: usize>() {
    let src: [u8; 4] = kani::any();
    let dst: [u8; 4] = kani::any();
    let sport: u16 = kani::any();
    let dport: u16 = kani::any();
    let payload: [u8; N] = kani::any();
    let bytes = build_udp_header(Ipv4Address::new(src), sport, Ipv4Address::new(dst), dport, payload.iter().cloned(), N).unwrap();
    let len = (N + 8) as u16;
    let pseudo = [src[0], src[1], src[2], src[3], dst[0], dst[1], dst[2], dst[3], 0, 17, (len >> 8) as u8, len as u8];
    let hdr = [bytes[0], bytes[1], bytes[2], bytes[3], bytes[4], bytes[5], bytes[6], bytes[7]];
    // summation order (irrelevant for a one's-complement sum) follows the builder's to keep the SAT problem small
    assert!(rfc1071_bytes(&[&payload, &hdr[4..6], &pseudo[10..12], &pseudo[..10], &hdr[..4], &hdr[6..8]]) == 0);
    assert!(!(hdr[6] == 0 && hdr[7] == 0));
    kani::cover!(hdr[6] == 0xff && hdr[7] == 0xff);
    core::mem::forget(bytes);
}
/// C18 UDP emission verifies, empty payload
#[cfg(feature = "compute_checksum")] #[kani::proof] #[kani::unwind(10)]
fn c18_udp_emitted_checksum_verifies_len0() { udp_emit::<0>() }
/// C18 UDP emission verifies, 1-byte (odd) payload
#[cfg(feature = "compute_checksum")] #[kani::proof] #[kani::unwind(10)]
fn c18_udp_emitted_checksum_verifies_len1() { udp_emit::<1>() }
/// C18 UDP emission verifies, 2-byte payload
#[cfg(feature = "compute_checksum")] #[kani::proof] #[kani::unwind(10)]
fn c18_udp_emitted_checksum_verifies_len2() { udp_emit::<2>() }
/// C18 UDP emission verifies, 3-byte (odd) payload
#[cfg(feature = "compute_checksum")] #[kani::proof] #[kani::unwind(10)]
fn c18_udp_emitted_checksum_verifies_len3() { udp_emit::<3>() }

/// C18 acceptance <=> reference, payload length N: an arbitrary UDP packet (8 header bytes + N payload bytes) with a
/// consistent length field and a non-zero checksum field is accepted exactly when RFC 1071 verification passes.
#[cfg(feature = "compute_checksum")]
fn udp_accept<const N: usize, const M: usize>() {
    let src: [u8; 4] = kani::any();
    let dst: [u8; 4] = kani::any();
    let p: [u8; M] = kani::any();
    let len = (N + 8) as u16;
    kani::assume(p[4] == (len >> 8) as u8 && p[5] == len as u8);
    kani::assume(!(p[6] == 0 && p[7] == 0)); // zero = "no checksum" in RFC 768, not produced by a checksumming sender
    let pseudo = [src[0], src[1], src[2], src[3], dst[0], dst[1], dst[2], dst[3], 0, 17, (len >> 8) as u8, len as u8];
    // summation order (irrelevant for a one's-complement sum) follows the decoder's to keep the SAT problem small
    let verifies = rfc1071_bytes(&[&p[..6], &pseudo[10..12], &pseudo[..10], &p[8..], &p[6..8]]) == 0;
    let r = UdpHeader::from_bytes_ipv4(p.iter().cloned(), M, Ipv4Address::new(src), Ipv4Address::new(dst));
    assert!(r.is_ok() == verifies);
    kani::cover!(verifies);
    kani::cover!(!verifies);
}
/// C18 UDP decoder accepts iff RFC 1071 verifies, empty payload
#[cfg(feature = "compute_checksum")] #[kani::proof] #[kani::unwind(14)]
fn c18_udp_accepts_iff_reference_verifies_len0() { udp_accept::<0, 8>() }
/// C18 UDP decoder accepts iff RFC 1071 verifies, 1-byte payload
#[cfg(feature = "compute_checksum")] #[kani::proof] #[kani::unwind(14)]
fn c18_udp_accepts_iff_reference_verifies_len1() { udp_accept::<1, 9>() }
/// C18 UDP decoder accepts iff RFC 1071 verifies, 2-byte payload
#[cfg(feature = "compute_checksum")] #[kani::proof] #[kani::unwind(14)]
fn c18_udp_accepts_iff_reference_verifies_len2() { udp_accept::<2, 10>() }
/// C18 UDP decoder accepts iff RFC 1071 verifies, 3-byte payload
#[cfg(feature = "compute_checksum")] #[kani::proof] #[kani::unwind(14)]
fn c18_udp_accepts_iff_reference_verifies_len3() { udp_accept::<3, 11>() }
