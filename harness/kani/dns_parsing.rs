// Kani harnesses for the DNS message codec (child module of protocols::dns::dns_parsing).
use super::*;

fn veq(a: &[u8], b: &[u8]) -> bool {
    if a.len() != b.len() { return false; }
    let mut i = 0;
    while i < a.len() {
        if a[i] != b[i] { return false; }
        i += 1;
    }
    true
}

fn name_of<const N: usize>() -> Vec<u8> {
    let n: [u8; N] = kani::any();
    let mut i = 0;
    while i < N {
        kani::assume(n[i] != b' ');   // names without the delimiter (documented restriction)
        i += 1;
    }
    n.to_vec()
}

/// R1 with question name of QN bytes, record name of RN bytes, RD rdata bytes, all header/record fields arbitrary:
/// from_bytes(build(v)) == v field by field.
fn dns_roundtrip<const QN: usize, const RN: usize, const RD: usize>() {
    let header = DnsHeader { id: kani::any(), properties: kani::any(), qdcount: kani::any(), ancount: kani::any(), nscount: kani::any(), arcount: kani::any() };
    let (id, props, qd, an, ns, ar) = (header.id, header.properties, header.qdcount, header.ancount, header.nscount, header.arcount);
    let qname = name_of::<QN>();
    let rname = name_of::<RN>();
    let rdata: [u8; RD] = kani::any();
    let (qtype, qclass, rtype, rclass, ttl): (u16, u16, u16, u16, u32) = (kani::any(), kani::any(), kani::any(), kani::any(), kani::any());
    let question = DnsQuestion { qname: qname.clone(), qtype, qclass };
    let answer = DnsResourceRecord { name: rname.clone(), rec_type: rtype, class: rclass, ttl, rdlength: RD as u16, rdata: rdata.to_vec() };
    let mut bytes = DnsHeader::build(header);
    bytes.append(&mut DnsQuestion::build(question));
    bytes.append(&mut DnsResourceRecord::build(answer));
    assert!(bytes.len() == 12 + QN + 1 + 4 + RN + 1 + 10 + RD);
    // wire layout of the fixed header (RFC 1035 4.1.1): six big-endian 16-bit words
    assert!(bytes[0] == (id >> 8) as u8 && bytes[1] == id as u8 && bytes[2] == (props >> 8) as u8 && bytes[3] == props as u8);
    let m = DnsMessage::from_bytes(bytes.iter().cloned()).unwrap();
    assert!(m.header.id == id && m.header.properties == props && m.header.qdcount == qd && m.header.ancount == an
        && m.header.nscount == ns && m.header.arcount == ar);
    assert!(veq(&m.question.qname, &qname) && m.question.qtype == qtype && m.question.qclass == qclass);
    assert!(veq(&m.answer.name, &rname) && m.answer.rec_type == rtype && m.answer.class == rclass && m.answer.ttl == ttl);
    assert!(m.answer.rdlength == RD as u16 && veq(&m.answer.rdata, &rdata));
    kani::cover!(true);
    core::mem::forget(m); core::mem::forget(bytes); core::mem::forget(qname); core::mem::forget(rname);
}

/// DNS R1: names of 2 and 3 bytes, 4-byte rdata (an A record)
#[kani::proof]
#[kani::unwind(40)]
fn x08_dns_roundtrip_names_2_3_rdata_4() { dns_roundtrip::<2, 3, 4>() }

/// DNS R1: empty names and empty rdata
#[kani::proof]
#[kani::unwind(40)]
fn c08_dns_roundtrip_empty_names() { dns_roundtrip::<0, 0, 0>() }

/// DNS R1: name of 3 bytes / 1 byte, 1-byte rdata
#[kani::proof]
#[kani::unwind(40)]
fn c08_dns_roundtrip_names_3_1_rdata_1() { dns_roundtrip::<3, 1, 1>() }

/// DNS R2: every accepted byte string of 28 bytes re-encodes (DnsHeader/Question/ResourceRecord::build) to the prefix the
/// decoder consumed.
#[kani::proof]
#[kani::unwind(32)]
fn x08_dns_reencode_reproduces_accepted_bytes() {
    let b: [u8; 29] = kani::any();
    if let Ok(m) = DnsMessage::from_bytes(b.iter().cloned()) {
        let consumed = 12 + m.question.qname.len() + 1 + 4 + m.answer.name.len() + 1 + 10 + m.answer.rdata.len();
        assert!(consumed <= 29);
        assert!(m.answer.rdlength as usize == m.answer.rdata.len());
        let mut out = DnsHeader::build(m.header);
        out.append(&mut DnsQuestion::build(m.question));
        out.append(&mut DnsResourceRecord::build(m.answer));
        assert!(out.len() == consumed);
        let i: usize = kani::any();
        kani::assume(i < consumed);
        assert!(out[i] == b[i]);
        kani::cover!(consumed == 29);
        kani::cover!(consumed == 28);
        core::mem::forget(out);
    }
}

/// C14: no byte string of length 0..=29 (any rdlength claim) makes the DNS decoder panic.
#[kani::proof]
#[kani::unwind(32)]
fn c14_dns_decoder_never_panics() {
    let b: [u8; 29] = kani::any();
    let n: usize = kani::any();
    kani::assume(n <= 29);
    match DnsMessage::from_bytes(b[..n].iter().cloned()) {
        Ok(m) => { assert!(n >= 28); kani::cover!(m.answer.rdata.len() == 1); core::mem::forget(m); }
        Err(e) => { kani::cover!(matches!(e, ParseError::HeaderTooShort) && n == 27); }
    }
}

/// C14: DnsQuestion::query_name on a decoded one-byte name with an arbitrary byte (what the DNS server calls on every
/// query it decodes) returns a value or an error - it does not panic on non-UTF-8 names.
#[kani::proof]
#[kani::unwind(4)]
fn c14_dns_query_name_never_panics() {
    let raw: [u8; 1] = kani::any();
    let q = DnsQuestion::new(raw.to_vec());
    let r = q.query_name();
    kani::cover!(r.is_ok());
    core::mem::forget(r); core::mem::forget(q);
}
