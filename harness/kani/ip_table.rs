// Kani harnesses for the routing-table key order (child module of ip_table). C09.
use super::*;
use std::cmp::Ordering;

fn any_obm() -> Obm {
    let ip: u32 = kani::any();
    let n: u32 = kani::any();
    kani::assume(n <= 32);
    Obm(Ipv4Net::new(Ipv4Address::from(ip), Ipv4Mask::from_bitcount(n)))
}

/// Obm::cmp is a total order consistent with Eq: antisymmetric, transitive, Equal <=> ==; and it sorts longer masks
/// first (so the first containing entry met by get_recipient's in-order scan is the most specific one).
#[kani::proof]
fn c09_obm_order_is_total_and_longest_mask_first() {
    let (a, b, c) = (any_obm(), any_obm(), any_obm());
    let ab = a.cmp(&b);
    assert!(b.cmp(&a) == ab.reverse());
    assert!((ab == Ordering::Equal) == (a == b));
    assert!(a.partial_cmp(&b) == Some(ab));
    if ab != Ordering::Greater && b.cmp(&c) != Ordering::Greater {
        assert!(a.cmp(&c) != Ordering::Greater);
    }
    if a.0.mask().count_ones() > b.0.mask().count_ones() {
        assert!(ab == Ordering::Less);
    }
    if a.0.mask() == b.0.mask() {
        assert!(ab == a.0.id().to_u32().cmp(&b.0.id().to_u32()));
    }
    kani::cover!(ab == Ordering::Less && a.0.id() > b.0.id());
    kani::cover!(ab == Ordering::Equal);
}
