// Kani harnesses for the TCP header codec (child module of protocols::tcp::tcp_parsing).
use super::*;

fn rfc1071_bytes(parts: &[&[u8]]) -> u16 {
    let mut acc: u32 = 0;
    let mut p = 0;
    while p < parts.len() {
        let b = parts[p];
        let mut i = 0;
        while i + 1 < b.len() {
            acc += ((b[i] as u32) << 8) | b[i + 1] as u32;
            i += 2;
        }
        if i < b.len() {
            acc += (b[i] as u32) << 8;
        }
        p += 1;
    }
    while acc >> 16 != 0 {
        acc = (acc & 0xffff) + (acc >> 16);
    }
    !(acc as u16)
}

/// reference encoder from the RFC 9293 section 3.1 diagram, no options, checksum field as given
#[allow(clippy::too_many_arguments)]
fn ref_tcp(sport: u16, dport: u16, seq: u32, ack: u32, urg_f: bool, ack_f: bool, psh_f: bool, rst_f: bool, syn_f: bool,
           fin_f: bool, wnd: u16, checksum: u16, urgp: u16) -> [u8; 20] {
    let flags: u8 = (fin_f as u8) | (syn_f as u8) << 1 | (rst_f as u8) << 2 | (psh_f as u8) << 3 | (ack_f as u8) << 4 | (urg_f as u8) << 5;
    [(sport >> 8) as u8, sport as u8, (dport >> 8) as u8, dport as u8,
     (seq >> 24) as u8, (seq >> 16) as u8, (seq >> 8) as u8, seq as u8,
     (ack >> 24) as u8, (ack >> 16) as u8, (ack >> 8) as u8, ack as u8,
     5 << 4, flags, (wnd >> 8) as u8, wnd as u8, (checksum >> 8) as u8, checksum as u8, (urgp >> 8) as u8, urgp as u8]
}

fn eq20(a: &[u8], b: &[u8; 20]) -> bool {
    if a.len() != 20 { return false; }
    let mut i = 0;
    while i < 20 {
        if a[i] != b[i] { return false; }
        i += 1;
    }
    true
}

/// R1+R3 (default build): for all ports, seq, ack, window, urgent pointer and all 64 flag combinations,
/// TcpHeader::serialize equals the RFC 9293 reference and from_bytes gives the same value back
/// (any packet length that fits 16 bits).
#[kani::proof]
#[kani::unwind(22)]
fn c08_tcp_encode_matches_rfc9293_and_roundtrips() {
    let (sport, dport, seq, ack, wnd, urgp): (u16, u16, u32, u32, u16, u16) = (kani::any(), kani::any(), kani::any(), kani::any(), kani::any(), kani::any());
    let (u, a, p, r, s, f): (bool, bool, bool, bool, bool, bool) = (kani::any(), kani::any(), kani::any(), kani::any(), kani::any(), kani::any());
    let ctl = Control::new(u, a, p, r, s, f);
    assert!(ctl.urg() == u && ctl.ack() == a && ctl.psh() == p && ctl.rst() == r && ctl.syn() == s && ctl.fin() == f);
    let h = TcpHeader { src_port: sport, dst_port: dport, seq, ack, data_offset: 5, ctl, wnd, urg: urgp, checksum: 0 };
    let bytes = h.serialize();
    let e = ref_tcp(sport, dport, seq, ack, u, a, p, r, s, f, wnd, 0, urgp);
    assert!(eq20(&bytes, &e));
    let plen: usize = kani::any();
    kani::assume(plen >= 20 && plen <= 65535);
    let src: [u8; 4] = kani::any();
    let dst: [u8; 4] = kani::any();
    let back = TcpHeader::from_bytes(bytes.iter().cloned(), plen, Ipv4Address::new(src), Ipv4Address::new(dst)).unwrap();
    assert!(back == h);
    let back2 = TcpHeader::from_bytes(e.iter().cloned(), plen, Ipv4Address::new(src), Ipv4Address::new(dst)).unwrap();
    assert!(back2 == h);
    kani::cover!(u && a && p && r && s && f);
    kani::cover!(!u && !a && !p && !r && !s && !f);
    core::mem::forget(bytes);
}

/// The builder used by the TCB: new(..).wnd().ack().syn()/fin()/rst()/psh()/urg() + build() yields the reference
/// header for the chosen fields (ack() sets ACK, urg() sets URG), data_offset 5, and OverlyLongPayload exactly
/// when text_len + 20 > 65535.
#[kani::proof]
#[kani::unwind(22)]
fn c08_tcp_builder_matches_reference() {
    let (sport, dport, seq, ack, wnd, urgp): (u16, u16, u32, u32, u16, u16) = (kani::any(), kani::any(), kani::any(), kani::any(), kani::any(), kani::any());
    let (u, a, p, r, s, f): (bool, bool, bool, bool, bool, bool) = (kani::any(), kani::any(), kani::any(), kani::any(), kani::any(), kani::any());
    let mut b = TcpHeaderBuilder::new(sport, dport, seq).wnd(wnd);
    if a { b = b.ack(ack); }
    if p { b = b.psh(); }
    if r { b = b.rst(); }
    if s { b = b.syn(); }
    if f { b = b.fin(); }
    if u { b = b.urg(urgp); }
    let text_len: usize = kani::any();
    kani::assume(text_len <= 70000);
    let src: [u8; 4] = kani::any();
    let dst: [u8; 4] = kani::any();
    match b.build(Ipv4Address::new(src), Ipv4Address::new(dst), core::iter::empty(), text_len) {
        Ok(h) => {
            assert!(text_len + 20 <= 65535);
            let bytes = h.serialize();
            let e = ref_tcp(sport, dport, seq, if a { ack } else { 0 }, u, a, p, r, s, f, wnd, 0, if u { urgp } else { 0 });
            assert!(eq20(&bytes, &e));
            kani::cover!(text_len == 65515);
            core::mem::forget(bytes);
        }
        Err(BuildHeaderError::OverlyLongPayload) => { assert!(text_len + 20 > 65535); kani::cover!(text_len == 65516); }
    }
}

/// R2, well-formed bit layout: every accepted 20-byte header whose reserved bits (byte 12 low nibble, byte 13
/// top two bits) are zero re-encodes to exactly the consumed bytes.
#[kani::proof]
#[kani::unwind(22)]
fn c08_tcp_reencode_reproduces_accepted_bytes() {
    let b: [u8; 20] = kani::any();
    kani::assume(b[12] & 0x0f == 0 && b[13] & 0xc0 == 0);
    let plen: usize = kani::any();
    let src: [u8; 4] = kani::any();
    let dst: [u8; 4] = kani::any();
    if let Ok(h) = TcpHeader::from_bytes(b.iter().cloned(), plen, Ipv4Address::new(src), Ipv4Address::new(dst)) {
        let out = h.serialize();
        assert!(eq20(&out, &b));
        kani::cover!(b[13] == 0x3f);
        core::mem::forget(out);
    }
}

/// R2, reserved bits set: an accepted header with non-zero reserved / CWR / ECE bits must also re-encode to the
/// consumed bytes (the property quantifies over every byte string the decoder accepts).
#[kani::proof]
#[kani::unwind(22)]
fn c08_tcp_reencode_with_reserved_bits() {
    let b: [u8; 20] = kani::any();
    kani::assume(b[12] & 0x0f != 0 || b[13] & 0xc0 != 0);
    let plen: usize = kani::any();
    let src: [u8; 4] = kani::any();
    let dst: [u8; 4] = kani::any();
    if let Ok(h) = TcpHeader::from_bytes(b.iter().cloned(), plen, Ipv4Address::new(src), Ipv4Address::new(dst)) {
        let out = h.serialize();
        assert!(eq20(&out, &b));
        core::mem::forget(out);
    }
    kani::cover!(true);
}

/// C14: no byte string of length 0..=24 with any claimed packet length makes the TCP decoder panic.
#[kani::proof]
#[kani::unwind(26)]
fn c14_tcp_decoder_never_panics() {
    let b: [u8; 24] = kani::any();
    let n: usize = kani::any();
    kani::assume(n <= 24);
    let plen: usize = kani::any();
    let src: [u8; 4] = kani::any();
    let dst: [u8; 4] = kani::any();
    match TcpHeader::from_bytes(b[..n].iter().cloned(), plen, Ipv4Address::new(src), Ipv4Address::new(dst)) {
        Ok(h) => { assert!(n >= 20 && h.bytes() == 20); kani::cover!(n == 24); }
        Err(e) => {
            kani::cover!(matches!(e, ParseError::HeaderTooShort) && n == 19);
            kani::cover!(matches!(e, ParseError::PacketTooLong));
            kani::cover!(matches!(e, ParseError::UnexpectedOptions));
        }
    }
}

// ---------------------------------------------------------------- compute_checksum build (C18)

/// C18 emission, payload length N: the checksum TcpHeaderBuilder::build computes verifies under RFC 1071 over
/// pseudo header + serialized header + payload.
#[cfg(feature = "compute_checksum")]
fn tcp_emit<const N: usize>() {
    let (sport, dport, seq, ack, wnd): (u16, u16, u32, u32, u16) = (kani::any(), kani::any(), kani::any(), kani::any(), kani::any());
    let fl: u8 = kani::any();
    kani::assume(fl < 64);
    let src: [u8; 4] = kani::any();
    let dst: [u8; 4] = kani::any();
    let payload: [u8; N] = kani::any();
    let mut b = TcpHeaderBuilder::new(sport, dport, seq).wnd(wnd).ack(ack);
    b.0.ctl = Control::from(fl);
    let h = b.build(Ipv4Address::new(src), Ipv4Address::new(dst), payload.iter().cloned(), N).unwrap();
    let bytes = h.serialize();
    let len = (N + 20) as u16;
    let pseudo = [src[0], src[1], src[2], src[3], dst[0], dst[1], dst[2], dst[3], 0, 6, (len >> 8) as u8, len as u8];
    // pseudo header + header + payload as one multiset of words; the summation order (irrelevant for a one's-complement
    // sum) follows the builder's so that the SAT problem stays small
    assert!(rfc1071_bytes(&[&payload, &pseudo, &bytes[..16], &bytes[18..20], &bytes[16..18]]) == 0);
    kani::cover!(h.checksum == 0xffff);
    kani::cover!(h.checksum != 0xffff && h.checksum != 0);
    core::mem::forget(bytes);
}
/// C18 TCP emission verifies, empty payload
#[cfg(feature = "compute_checksum")] #[kani::proof] #[kani::unwind(22)]
fn c18_tcp_emitted_checksum_verifies_len0() { tcp_emit::<0>() }
/// C18 TCP emission verifies, 1-byte (odd) payload
#[cfg(feature = "compute_checksum")] #[kani::proof] #[kani::unwind(22)]
fn c18_tcp_emitted_checksum_verifies_len1() { tcp_emit::<1>() }
/// C18 TCP emission verifies, 2-byte payload
#[cfg(feature = "compute_checksum")] #[kani::proof] #[kani::unwind(22)]
fn c18_tcp_emitted_checksum_verifies_len2() { tcp_emit::<2>() }
/// C18 TCP emission verifies, 3-byte (odd) payload
#[cfg(feature = "compute_checksum")] #[kani::proof] #[kani::unwind(22)]
fn c18_tcp_emitted_checksum_verifies_len3() { tcp_emit::<3>() }

/// C18 acceptance <=> reference, payload length N: an arbitrary segment (20 header bytes, data offset 5, + N payload
/// bytes) is accepted exactly when RFC 1071 verification over pseudo header + segment passes.
#[cfg(feature = "compute_checksum")]
fn tcp_accept<const M: usize>() {
    let src: [u8; 4] = kani::any();
    let dst: [u8; 4] = kani::any();
    let p: [u8; M] = kani::any();
    kani::assume(p[12] >> 4 == 5);
    let len = M as u16;
    let pseudo = [src[0], src[1], src[2], src[3], dst[0], dst[1], dst[2], dst[3], 0, 6, (len >> 8) as u8, len as u8];
    // same multiset of words as RFC 9293 3.1 prescribes (pseudo header + segment); summation order is irrelevant for a
    // one's-complement sum, the order below merely keeps the SAT problem small
    let verifies = rfc1071_bytes(&[&p[..16], &p[18..], &pseudo, &p[16..18]]) == 0;
    let r = TcpHeader::from_bytes(p.iter().cloned(), M, Ipv4Address::new(src), Ipv4Address::new(dst));
    assert!(r.is_ok() == verifies);
    kani::cover!(verifies && p[16] == 0 && p[17] == 0);
    kani::cover!(verifies);
    kani::cover!(!verifies);
}
/// C18 TCP decoder accepts iff RFC 1071 verifies, empty payload
#[cfg(feature = "compute_checksum")] #[kani::proof] #[kani::unwind(26)]
fn c18_tcp_accepts_iff_reference_verifies_len0() { tcp_accept::<20>() }
/// C18 TCP decoder accepts iff RFC 1071 verifies, 1-byte payload
#[cfg(feature = "compute_checksum")] #[kani::proof] #[kani::unwind(26)]
fn c18_tcp_accepts_iff_reference_verifies_len1() { tcp_accept::<21>() }
/// C18 TCP decoder accepts iff RFC 1071 verifies, 2-byte payload
#[cfg(feature = "compute_checksum")] #[kani::proof] #[kani::unwind(26)]
fn c18_tcp_accepts_iff_reference_verifies_len2() { tcp_accept::<22>() }
