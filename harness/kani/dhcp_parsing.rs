// Kani harnesses for the DHCP message codec (child module of protocols::dhcp::dhcp_parsing).
use super::*;

/// C14: no byte string of length 0..=34 makes the DHCP decoder panic (message type 0 and > 7, strings
/// that are not UTF-8, missing terminators and every truncation included).
#[kani::proof]
#[kani::unwind(7)]
fn c14_dhcp_decoder_never_panics() {
    let b: [u8; 34] = kani::any();
    let n: usize = kani::any();
    kani::assume(n <= 34);
    match DhcpMessage::from_bytes(b[..n].iter().cloned()) {
        Ok(m) => { assert!(n >= 32); kani::cover!(m.server_name.len() == 2); core::mem::forget(m); }
        Err(e) => {
            kani::cover!(matches!(e, ParseError::HeaderTooShort) && n == 31);
            kani::cover!(matches!(e, ParseError::InvalidDhcpType) && b[29] == 0);
            kani::cover!(matches!(e, ParseError::InvalidDhcpType) && b[29] == 8);
            kani::cover!(!matches!(e, ParseError::HeaderTooShort) && !matches!(e, ParseError::InvalidDhcpType));
        }
    }
}

/// MessageType::try_from accepts exactly 1..=7 and `as u8` inverts it.
#[kani::proof]
fn c08_dhcp_message_type_roundtrip() {
    let t: u8 = kani::any();
    match MessageType::try_from(t) {
        Ok(m) => { assert!(t >= 1 && t <= 7); assert!(m as u8 == t); }
        Err(_) => assert!(t == 0 || t > 7),
    }
    kani::cover!(t == 7);
}
