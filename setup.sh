#!/bin/bash
# Offline setup: nothing to fetch; make sure tools exist and warm the Kani dependency cache.
cd "$(dirname "$0")" || exit 1
export CARGO_NET_OFFLINE=true
command -v cargo-kani >/dev/null || { echo "cargo-kani missing"; exit 1; }
python3-vt -c 'import z3' || { echo "z3 python bindings missing"; exit 1; }
mkdir -p .cache evidence replays
exit 0
