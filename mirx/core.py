"""mirx core: path-based symbolic executor over rustc MIR text (-Zunpretty=mir) with z3.

Crate functions are interpreted statement by statement from the MIR dump that is regenerated
from /repo on every run; std container types are replaced by small reference models
(mirx/models.py).  Exploration is depth-first over branch decisions with re-execution from a
decision prefix; at a symbolic branch each successor is kept iff `pc AND cond` is satisfiable.
"""
import re, sys, time, os
import z3

# ------------------------------------------------------------------------------ MIR parsing

class Fn:
    __slots__ = ('name', 'sig', 'params', 'ret', 'locals', 'blocks', 'impl_at', 'cblocks', 'root')

    def __init__(self, name, sig):
        self.name = name
        self.sig = sig
        self.params = []
        self.ret = None
        self.locals = {}
        self.blocks = {}
        self.impl_at = None
        self.cblocks = {}     # compiled blocks cache
        self.root = None


def split_top(s, sep=','):
    """split on sep at nesting depth 0 wrt ()[]{}<> and string quotes"""
    out = []
    depth = 0
    cur = []
    i = 0
    inq = False
    n = len(s)
    while i < n:
        c = s[i]
        if inq:
            cur.append(c)
            if c == '\\':
                cur.append(s[i + 1])
                i += 1
            elif c == '"':
                inq = False
        elif c == '"':
            inq = True
            cur.append(c)
        elif c in '([{':
            depth += 1
            cur.append(c)
        elif c in ')]}':
            depth -= 1
            cur.append(c)
        elif c == '<':
            depth += 1
            cur.append(c)
        elif c == '>' and depth > 0 and not (i > 0 and s[i - 1] in '-='):
            depth -= 1
            cur.append(c)
        elif c == sep and depth == 0:
            out.append(''.join(cur).strip())
            cur = []
        else:
            cur.append(c)
        i += 1
    t = ''.join(cur).strip()
    if t:
        out.append(t)
    return out


FN_RE = re.compile(r'^fn (.*?)\((.*)\) -> (.*) \{$')
CONST1_RE = re.compile(r'^(?:const|static) ((?:<impl at [^>]*>|[^:<]|::|<[^>]*>)*?): (.*) = const (.*);$')
CONST2_RE = re.compile(r'^(?:const|static) ((?:<impl at [^>]*>|[^:<]|::|<[^>]*>)*?): (.*) = \{$')


def parse_mir(text):
    fns = {}
    lines = text.split('\n')
    i = 0
    n = len(lines)
    while i < n:
        ln = lines[i]
        cm = CONST1_RE.match(ln)
        if cm:
            f = Fn('const:' + cm.group(1), ln)
            f.ret = cm.group(2)
            f.blocks['bb0'] = (['_0 = const ' + cm.group(3)], 'return')
            fns.setdefault(f.name, f)
            i += 1
            continue
        cm = CONST2_RE.match(ln)
        if ln.startswith('fn ') or cm:
            if cm:
                name, params, ret = 'const:' + cm.group(1), '', cm.group(2)
            else:
                m = FN_RE.match(ln)
                if not m:
                    i += 1
                    continue
                name, params, ret = m.group(1), m.group(2), m.group(3)
            f = Fn(name, ln)
            for p in split_top(params):
                pm = re.match(r'^(_\d+): (.*)$', p)
                if pm:
                    f.params.append((pm.group(1), pm.group(2)))
            f.ret = ret
            im = re.search(r'<impl at ([^:]+):(\d+):(\d+): (\d+):(\d+)>', name)
            if im:
                f.impl_at = (im.group(1), int(im.group(2)), int(im.group(3)))
            i += 1
            while i < n and lines[i] != '}':
                l = lines[i].strip()
                lm = re.match(r'^let (?:mut )?(_\d+): (.*);$', l)
                if lm:
                    f.locals[lm.group(1)] = lm.group(2)
                bm = re.match(r'^(bb\d+)(?: \(cleanup\))?: \{$', l)
                if bm:
                    cur = bm.group(1)
                    stmts = []
                    i += 1
                    while lines[i].strip() != '}':
                        s = lines[i].strip()
                        while not s.endswith(';'):
                            i += 1
                            s += ' ' + lines[i].strip()
                        stmts.append(s[:-1])
                        i += 1
                    f.blocks[cur] = (stmts[:-1], stmts[-1])
                i += 1
            for (p, t) in f.params:
                f.locals[p] = t
            if name not in fns:
                fns[name] = f
        i += 1
    return fns


def parse_enums(src_root):
    """scan rust sources for enum declarations -> {Name: {Variant: discr}} (MIR does not print discriminants)"""
    out = {}
    for dp, dn, fn in os.walk(src_root):
        for nme in fn:
            if not nme.endswith('.rs'):
                continue
            txt = open(os.path.join(dp, nme)).read()
            txt = re.sub(r'//[^\n]*', '', txt)
            for m in re.finditer(r'\benum\s+(\w+)\s*(?:<[^>{]*>)?\s*\{', txt):
                i = m.end()
                d = 1
                j = i
                while d > 0 and j < len(txt):
                    if txt[j] == '{':
                        d += 1
                    elif txt[j] == '}':
                        d -= 1
                    j += 1
                body = txt[i:j - 1]
                body = re.sub(r'#\[[^\]]*\]', '', body)
                vs = {}
                nxt = 0
                for part in split_top(body):
                    vm = re.match(r'^(\w+)\s*(?:[\({].*[\)}])?\s*(?:=\s*(.+))?$', part.strip(), re.S)
                    if not vm:
                        continue
                    if vm.group(2):
                        try:
                            nxt = int(vm.group(2).replace('_', ''), 0)
                        except Exception:
                            pass
                    vs[vm.group(1)] = nxt
                    nxt += 1
                out.setdefault(m.group(1), vs)
    return out


# ------------------------------------------------------------------------------ values

INT_W = {'u8': 8, 'u16': 16, 'u32': 32, 'u64': 64, 'u128': 128, 'usize': 64,
         'i8': 8, 'i16': 16, 'i32': 32, 'i64': 64, 'i128': 128, 'isize': 64, 'char': 32}
SIGNED = {'i8', 'i16', 'i32', 'i64', 'i128', 'isize'}


class Int:
    """fixed-width integer: v is a python int in [0, 2^w) (concrete) or a z3 BitVecRef (symbolic)"""
    __slots__ = ('w', 'v')

    def __init__(self, w, v):
        self.w = w
        if isinstance(v, int):
            self.v = v & ((1 << w) - 1)
        else:
            self.v = v

    @property
    def conc(self):
        return isinstance(self.v, int)

    def z(self):
        return z3.BitVecVal(self.v, self.w) if isinstance(self.v, int) else self.v

    def signed_val(self):
        v = self.v
        return v - (1 << self.w) if v >> (self.w - 1) else v

    def __repr__(self):
        return f'{self.v}_{self.w}' if self.conc else f'<{self.v}>_{self.w}'


def mk_int(w, v):
    """build Int; collapse z3 numerals to python ints"""
    if not isinstance(v, int):
        if z3.is_bv_value(v):
            v = v.as_long()
    return Int(w, v)


def sym_int(name, w):
    return Int(w, z3.BitVec(name, w))


def is_cbool(b):
    return isinstance(b, bool)


def zb(b):
    return z3.BoolVal(b) if isinstance(b, bool) else b


def mk_bool(b):
    if isinstance(b, bool):
        return b
    if z3.is_true(b):
        return True
    if z3.is_false(b):
        return False
    return b


def b_not(a):
    return (not a) if isinstance(a, bool) else mk_bool(z3.Not(a))


def b_and(*xs):
    r = []
    for x in xs:
        if isinstance(x, bool):
            if not x:
                return False
        else:
            r.append(x)
    if not r:
        return True
    return r[0] if len(r) == 1 else z3.And(*r)


def b_or(*xs):
    r = []
    for x in xs:
        if isinstance(x, bool):
            if x:
                return True
        else:
            r.append(x)
    if not r:
        return False
    return r[0] if len(r) == 1 else z3.Or(*r)


def b_ite_int(c, a, b):
    """Int if-then-else"""
    if isinstance(c, bool):
        return a if c else b
    if a.conc and b.conc and a.v == b.v:
        return a
    return Int(a.w, z3.If(c, a.z(), b.z()))


def b_ite_bool(c, a, b):
    if isinstance(c, bool):
        return a if c else b
    if isinstance(a, bool) and isinstance(b, bool):
        if a == b:
            return a
        return c if a else mk_bool(z3.Not(c))
    return z3.If(c, zb(a), zb(b))


class Agg:
    """struct / tuple / enum value; fields by index; variant = int | Int (symbolic, fieldless only) | None"""
    __slots__ = ('ty', 'f', 'variant')

    def __init__(self, ty, fields=None, variant=None):
        self.ty = ty
        self.f = dict(fields or {})
        self.variant = variant

    def __repr__(self):
        v = '' if self.variant is None else f'::{self.variant}'
        return f'{self.ty}{v}{self.f if self.f else ""}'


class Ref:
    __slots__ = ('cont', 'key')

    def __init__(self, cont, key):
        self.cont = cont
        self.key = key

    def get(self):
        return self.cont[self.key]

    def set(self, v):
        self.cont[self.key] = v

    def __repr__(self):
        return f'&[{self.key}]'


class ListV:
    """Vec / VecDeque / BinaryHeap(data) / array / slice model: python list of values"""
    __slots__ = ('kind', 'items')

    def __init__(self, kind, items=None):
        self.kind = kind
        self.items = list(items or [])

    def __repr__(self):
        return f'{self.kind}{self.items}'


class MapV:
    """ordered / hashed map model: association list [(key, value)] (see models.py)"""
    __slots__ = ('kind', 'items')

    def __init__(self, kind, items=None):
        self.kind = kind
        self.items = list(items or [])

    def __repr__(self):
        return f'{self.kind}{self.items}'


class IterV:
    """iterator over a ListV (by reference), optional adaptor stack"""
    __slots__ = ('lst', 'pos', 'mode', 'adapt', 'end', 'inner')

    def __init__(self, lst, mode, pos=0, adapt=None, end=None):
        self.inner = None
        self.lst = lst
        self.pos = pos
        self.mode = mode          # 'ref' | 'mut' | 'val'
        self.adapt = list(adapt or [])   # [('map', closure), ('cloned',), ...]
        self.end = end


class Opaque:
    """value the model does not interpret (fmt::Arguments, closures without captures, ...)"""
    __slots__ = ('what',)

    def __init__(self, what):
        self.what = what

    def __repr__(self):
        return f'Opaque({self.what})'


class Unit:
    def __repr__(self):
        return '()'


UNIT = Unit()


class Panic(Exception):
    def __init__(self, msg, site=''):
        Exception.__init__(self, msg)
        self.msg = msg
        self.site = site


class PathEnd(Exception):
    pass


class Unsupported(Exception):
    pass


def clone_val(v):
    if isinstance(v, Agg):
        return Agg(v.ty, {k: clone_val(x) for k, x in v.f.items()}, v.variant)
    if isinstance(v, ListV):
        return ListV(v.kind, [clone_val(x) for x in v.items])
    if isinstance(v, MapV):
        return MapV(v.kind, [(clone_val(k), clone_val(x)) for k, x in v.items])
    if hasattr(v, 'mirx_clone'):
        return v.mirx_clone()
    return v


def some(v):
    return Agg('Option', {0: v}, 1)


def none():
    return Agg('Option', {}, 0)


def ok(v):
    return Agg('Result', {0: v}, 0)


def err(v):
    return Agg('Result', {0: v}, 1)


# ------------------------------------------------------------------------------ executor

_STMT_SKIP = ('StorageLive', 'StorageDead', 'nop', 'FakeRead', 'PlaceMention', 'Retag', 'AscribeUserType', 'Coverage',
              'ConstEvalCounter', 'BackwardIncompatibleDropHint')

BINOPS = {'Add', 'Sub', 'Mul', 'BitAnd', 'BitOr', 'BitXor', 'Shl', 'Shr', 'Eq', 'Ne', 'Lt', 'Le', 'Gt', 'Ge', 'Div', 'Rem',
          'AddWithOverflow', 'SubWithOverflow', 'MulWithOverflow', 'AddUnchecked', 'SubUnchecked', 'MulUnchecked',
          'ShlUnchecked', 'ShrUnchecked', 'Cmp', 'Offset'}


class Exec:
    def __init__(self, fns, enum_info, src_root):
        self.fns = fns
        self.by_last = {}
        for n, f in fns.items():
            last = n.split('::')[-1]
            self.by_last.setdefault(last, []).append(f)
        self.enum_info = enum_info
        self.src_root = src_root
        self.models = []          # [(compiled regex, handler)]
        self.model_cache = {}
        self.resolve_cache = {}
        self.src_cache = {}
        self.solver = z3.Solver()
        self.solver.set('timeout', 60000)
        self.stats = {'paths': 0, 'queries': 0, 'sat': 0, 'unsat': 0, 'unknown': 0, 'solver_time': 0.0, 'stmts': 0, 'calls': 0}
        self.summaries = {}
        self.summarize_re = None
        self.max_steps = 200000
        self.fresh_n = 0
        self.trace_calls = False
        self.encoded = set()      # names of crate functions actually interpreted
        self.models_used = set()
        self.pc = []
        self.fresh_solver = True
        self.cur_model = None

    # ---- models
    def model(self, pat):
        def deco(fn):
            self.models.append((re.compile(pat), fn))
            return fn
        return deco

    def find_model(self, callee):
        h = self.model_cache.get(callee, 0)
        if h == 0:
            h = None
            for rx, fn in self.models:
                if rx.search(callee):
                    h = fn
                    break
            self.model_cache[callee] = h
        return h

    def fresh(self, prefix, w):
        self.fresh_n += 1
        return Int(w, z3.BitVec(f'{prefix}!{self.fresh_n}', w))

    def fresh_bool(self, prefix):
        self.fresh_n += 1
        return z3.Bool(f'{prefix}!{self.fresh_n}')

    # ---- path driver
    def explore(self, body, on_end=None, max_paths=200000, deadline=None):
        """body(ex) is run once per path; every nondeterministic choice goes through ex.branch/ex.choose.
        on_end(ex, kind, value) is called at the end of each feasible path with kind in ok|panic."""
        work = [[]]
        while work:
            prefix = work.pop()
            self.prefix = prefix
            self.dec_i = 0
            self.pc = []
            self.work = work
            self.taken = []
            self.fresh_n = 0
            self.cur_model = None
            self.stats['paths'] += 1
            if self.stats['paths'] > max_paths:
                raise Unsupported('path budget exceeded')
            if deadline and time.time() > deadline:
                raise Unsupported('time budget exceeded')
            self.solver.push()
            try:
                try:
                    r = body(self)
                    if on_end:
                        on_end(self, 'ok', r)
                except Panic as p:
                    if on_end:
                        on_end(self, 'panic', p)
                    else:
                        raise
            except PathEnd:
                pass
            finally:
                self.solver.pop()

    def _check(self, extra):
        t = time.time()
        self.stats['queries'] += 1
        if self.fresh_solver:
            sv = z3.SolverFor('QF_BV')
            sv.set('timeout', 60000)
            for c in self.pc:
                sv.add(c)
            for c in extra:
                sv.add(c)
            r = sv.check()
            if r == z3.unknown:
                # one retry with a generous limit before the query is reported as undecided
                sv.set('timeout', 600000)
                r = sv.check()
            m = sv.model() if r == z3.sat else None
        else:
            self.solver.push()
            for c in extra:
                self.solver.add(c)
            r = self.solver.check()
            m = self.solver.model() if r == z3.sat else None
            self.solver.pop()
        self.stats['solver_time'] += time.time() - t
        if r == z3.sat:
            self.stats['sat'] += 1
        elif r == z3.unsat:
            self.stats['unsat'] += 1
        else:
            self.stats['unknown'] += 1
        return r, m

    def check_sat(self, *conds):
        """is pc AND conds satisfiable?  returns (bool, model)"""
        cs = []
        for c in conds:
            c = mk_bool(c)
            if c is True:
                continue
            if c is False:
                return False, None
            cs.append(c)
        r, m = self._check(cs)
        if r == z3.unknown:
            raise Unsupported('solver returned unknown')
        return r == z3.sat, m

    def add_pc(self, c):
        self.pc.append(c)
        if self.cur_model is not None and not z3.is_true(self.cur_model.eval(c, model_completion=True)):
            self.cur_model = None
        if not self.fresh_solver:
            self.solver.add(c)

    def assume(self, c):
        """add a constraint; the path ends silently if it becomes infeasible (pc stays satisfiable by invariant)"""
        c = mk_bool(c)
        if not isinstance(c, bool):
            c = mk_bool(z3.simplify(c))
        if c is True:
            return
        if c is False:
            raise PathEnd()
        if self.dec_i < len(self.prefix) or (self.cur_model is not None and z3.is_true(self.cur_model.eval(c, model_completion=True))):
            self.add_pc(c)      # replaying a prefix that was feasible, or witnessed by the current model
            return
        r, m = self._check([c])
        if r == z3.unsat:
            raise PathEnd()
        if r != z3.sat:
            raise Unsupported('solver returned unknown')
        self.add_pc(c)
        self.cur_model = m

    def assume_checked(self, c):
        """assume and make sure the path is still feasible"""
        self.assume(c)
        okk, _ = self.check_sat()
        if not okk:
            raise PathEnd()

    def branch(self, options):
        """options: [(label, cond)] mutually exclusive & exhaustive. returns the label taken on this path; forks."""
        live = []
        for (lab, c) in options:
            c = mk_bool(c)
            if not isinstance(c, bool):
                c = mk_bool(z3.simplify(c))
            if c is False:
                continue
            live.append((lab, c))
        if not live:
            raise PathEnd()
        if len(live) == 1 and live[0][1] is True:
            return live[0][0]
        for (l, c) in live:
            if c is True:
                return l
        if self.dec_i < len(self.prefix):
            lab = self.prefix[self.dec_i]
            self.dec_i += 1
            for (l, c) in live:
                if l == lab:
                    self.add_pc(c)
                    self.taken.append(lab)
                    return lab
            raise Exception(f'replay divergence: {lab} not in {[l for l, _ in live]}')
        feas = []
        mdl = self.cur_model
        witness = {}
        for idx, (l, c) in enumerate(live):
            if mdl is not None and z3.is_true(mdl.eval(c, model_completion=True)):
                feas.append((l, c))
                witness[l] = mdl
                continue
            if idx == len(live) - 1 and not feas:
                feas.append((l, c))        # options are exhaustive and pc is satisfiable: the last one must be feasible
                continue
            r, m = self._check([c])
            if r == z3.sat:
                feas.append((l, c))
                witness[l] = m
            elif r != z3.unsat:
                raise Unsupported('solver returned unknown')
        if not feas:
            raise PathEnd()
        self.cur_model = witness.get(feas[0][0])
        for (l, c) in feas[1:]:
            self.work.append(self.taken + [l])
        l, c = feas[0]
        self.prefix = self.taken + [l]
        self.dec_i = len(self.prefix)
        self.add_pc(c)
        self.taken.append(l)
        return l

    def choose(self, labels):
        """pure nondeterministic choice (scenario enumeration)"""
        return self.branch_forced([(l, True) for l in labels])

    def branch_forced(self, options):
        # like branch but all options 'True' are alternatives
        if len(options) == 1:
            return options[0][0]
        if self.dec_i < len(self.prefix):
            lab = self.prefix[self.dec_i]
            self.dec_i += 1
            self.taken.append(lab)
            return lab
        for (l, _) in options[1:]:
            self.work.append(self.taken + [l])
        l = options[0][0]
        self.prefix = self.taken + [l]
        self.dec_i = len(self.prefix)
        self.taken.append(l)
        return l

    def concretize_bool(self, c):
        """fork on a symbolic bool; returns python bool"""
        c = mk_bool(c)
        if isinstance(c, bool):
            return c
        return self.branch([(True, c), (False, z3.Not(c))])

    def concretize_int(self, x, candidates, what='value'):
        """fork over the given python-int candidates for Int x (plus 'other' which is Unsupported if feasible)"""
        if x.conc:
            return x.v
        # fast path: the path condition already determines the value (one unsat query instead of one per candidate)
        if self.dec_i >= len(self.prefix) and self.cur_model is not None:
            try:
                k0 = self.cur_model.eval(x.v, model_completion=True).as_long()
            except Exception:
                k0 = None
            if k0 is not None:
                key = ('det', x.v.get_id(), len(self.pc))
                r, _ = self._check([x.v != z3.BitVecVal(k0, x.w)])
                if r == z3.unsat:
                    if k0 not in candidates:
                        raise Unsupported(f'{what} outside modelled range')
                    # record it like a (forced) branch decision so that re-execution stays aligned
                    self.prefix = self.taken + [k0]
                    self.dec_i = len(self.prefix)
                    self.taken.append(k0)
                    self.add_pc(x.v == z3.BitVecVal(k0, x.w))
                    return k0
        opts = [(k, x.v == z3.BitVecVal(k, x.w)) for k in candidates]
        opts.append(('other', z3.And(*[x.v != z3.BitVecVal(k, x.w) for k in candidates]) if candidates else True))
        r = self.branch(opts)
        if r == 'other':
            raise Unsupported(f'{what} outside modelled range')
        return r

    # ---- function lookup
    def impl_type(self, f):
        if f.impl_at is None:
            return None
        key = (f.impl_at, getattr(f, 'root', None))
        if key in self.src_cache:
            return self.src_cache[key]
        lines, l = [], ''
        roots = [self.src_root] + list(getattr(self, 'extra_roots', []))
        if getattr(f, 'root', None):
            roots = [f.root] + roots
        for root in roots:
            path = os.path.join(root, f.impl_at[0])
            try:
                lines = open(path).read().split('\n')
                l = lines[f.impl_at[1] - 1][f.impl_at[2] - 1:]
                if re.match(r'impl\b|\w', l):
                    break
            except Exception:
                lines, l = [], ''
        r = None
        m = re.match(r'impl(?:<[^>]*>)?\s+(?:([\w:<>, \[\];&\'()]+?)\s+for\s+)?(\[[^\]]*\]|\([^)]*\)|[\w:]+)', l)
        if m:
            r = (m.group(1), m.group(2) if m.group(2)[0] in '[(' else m.group(2).split('::')[-1])
        elif l:
            tm = re.match(r'(\w+)', l)
            j = f.impl_at[1] - 1
            ty = None
            while j < len(lines):
                dm = re.match(r'\s*(?:pub(?:\([^)]*\))?\s+)?(?:struct|enum)\s+(\w+)', lines[j])
                if dm:
                    ty = dm.group(1)
                    break
                j += 1
            r = (tm.group(1) if tm else None, ty)
        self.src_cache[key] = r
        return r

    def resolve(self, callee):
        if callee in self.resolve_cache:
            return self.resolve_cache[callee]
        r = self._resolve(callee)
        self.resolve_cache[callee] = r
        return r

    def _resolve(self, callee):
        name = re.sub(r'::<[^()]*>$', '', callee)
        if name in self.fns:
            return self.fns[name]
        m = re.match(r'^<(.*) as (.*)>::(\w+)$', name)
        if m:
            ty, tr, meth = m.group(1), m.group(2), m.group(3)
            ty = re.sub(r'^&(mut )?', '', ty)
            tyl = re.sub(r'<.*$', '', ty).split('::')[-1]
            trl = re.sub(r'<.*$', '', tr).split('::')[-1]
            cands = []
            for f in self.by_last.get(meth, []):
                it = self.impl_type(f)
                if it and it[1] == tyl and it[0] and re.sub(r'<.*$', '', it[0]).split('::')[-1] == trl:
                    cands.append((f, it))
            if len(cands) == 1:
                return cands[0][0]
            if cands:
                # disambiguate generic trait args, e.g. From<Range<usize>> vs From<RangeFrom<usize>>
                strip = lambda x: re.sub(r'(\w+::)+', '', re.sub(r'\s', '', x))
                targ = strip(tr)
                exact = [(f, it) for f, it in cands if strip(it[0]) == targ]
                if exact:
                    cands = exact
                if len(cands) == 1:
                    return cands[0][0]
                mods = re.sub(r'<.*$', '', ty).split('::')[:-1]
                best = None
                for f, it in cands:
                    dm = [x for x in re.sub(r'<impl at [^>]*>.*$', '', f.name).split('::') if x]
                    k = 0
                    while k < len(dm) and k < len(mods) and dm[-1 - k] == mods[-1 - k]:
                        k += 1
                    if best is None or k > best[0]:
                        best = (k, f)
                return best[1]
            # provided (default) method of a crate trait: its MIR is listed under the trait, e.g. utility::BytesExt::next_u16_be
            for f in self.by_last.get(meth, []):
                if f.impl_at is None and re.search(r'(^|::)' + re.escape(trl) + r'::' + re.escape(meth) + r'$', f.name):
                    return f
            return None
        parts = [p for p in name.split('::')] if '<' not in name else self._split_path(name)
        # drop turbofish segments (Type::<T>::method)
        parts = [p for i, p in enumerate(parts) if not (i > 0 and p.startswith('<') and p.endswith('>') and ' as ' not in p)]
        meth = parts[-1]
        if len(parts) >= 2:
            tyl = re.sub(r'<.*$', '', parts[-2])
            cands = []
            for f in self.by_last.get(meth, []):
                it = self.impl_type(f)
                if it and it[1] == tyl and it[0] is None:
                    cands.append(f)
            if len(cands) == 1:
                return cands[0]
            if cands:
                mods = parts[:-2]

                def score(f):
                    dm = [x for x in re.sub(r'<impl at [^>]*>.*$', '', f.name).split('::') if x]
                    k = 0
                    while k < len(dm) and k < len(mods) and dm[-1 - k] == mods[-1 - k]:
                        k += 1
                    return k
                cands.sort(key=score, reverse=True)
                return cands[0]
            for f in self.by_last.get(meth, []):
                if f.impl_at is None and f.name.endswith('::'.join(parts[-2:])):
                    return f
        for f in self.by_last.get(meth, []):
            if f.impl_at is None and (f.name == name or f.name.endswith('::' + name)):
                return f
        # closures: Type::method::{closure#0}
        return None

    def _split_path(self, name):
        out = []
        depth = 0
        cur = ''
        i = 0
        while i < len(name):
            c = name[i]
            if c == '<':
                depth += 1
            elif c == '>' and not (i > 0 and name[i - 1] == '-'):
                depth -= 1
            if c == ':' and depth == 0 and name[i:i + 2] == '::':
                out.append(cur)
                cur = ''
                i += 2
                continue
            cur += c
            i += 1
        out.append(cur)
        return out

    def closure_fn(self, cl_ty):
        """{closure@src/file.rs:L:C: L:C} -> Fn (closure bodies are named <enclosing>::{closure#N}; find by position)"""
        m = re.search(r'\{closure@([^:]+):(\d+):(\d+): (\d+):(\d+)\}', cl_ty)
        if not m:
            return None
        key = ('closure', m.group(0))
        if key in self.resolve_cache:
            return self.resolve_cache[key]
        for n, f in self.fns.items():
            if '{closure#' in n and f.params and m.group(0) in f.params[0][1] and not n.startswith('const:'):
                self.resolve_cache[key] = f
                return f
        self.resolve_cache[key] = None
        return None

    # ---- pure-function summaries (avoid path multiplication inside small scalar predicates)
    def summarized_call(self, callee, args):
        def shape(a):
            if isinstance(a, Agg):
                if isinstance(a.variant, Int) and not a.variant.conc:
                    raise Unsupported('summary arg with symbolic variant')
                return ('agg', a.ty, a.variant.v if isinstance(a.variant, Int) else a.variant, tuple((k, shape(v)) for k, v in sorted(a.f.items())))
            if isinstance(a, bool) or z3.is_bool(a):
                return 'bool'
            if isinstance(a, Int):
                return ('bv', a.w)
            raise Unsupported('summary arg')
        if all(self._all_conc(a) for a in args):
            raise Unsupported('concrete: run directly')
        key = (callee, tuple(shape(a) for a in args))
        if key not in self.summaries:
            cnt = [0]

            def fresh(a):
                if isinstance(a, Agg):
                    return Agg(a.ty, {k: fresh(v) for k, v in a.f.items()}, a.variant)
                cnt[0] += 1
                if isinstance(a, bool) or z3.is_bool(a):
                    return z3.Bool(f'__s{len(self.summaries)}_{cnt[0]}')
                return Int(a.w, z3.BitVec(f'__s{len(self.summaries)}_{cnt[0]}', a.w))
            formals = [fresh(a) for a in args]
            sub = Exec(self.fns, self.enum_info, self.src_root)
            sub.models = self.models
            sub.model_cache = self.model_cache
            sub.resolve_cache = self.resolve_cache
            sub.src_cache = self.src_cache
            sub.summaries = self.summaries
            sub.summarize_re = self.summarize_re
            sub.encoded = self.encoded
            sub.models_used = self.models_used
            cases = []
            f = self.resolve(callee)
            if f is None:
                raise Unsupported('summary of unknown fn ' + callee)
            self.summaries[key] = None

            def body(e):
                return e.run(f, [clone_val(x) for x in formals])

            def on_end(e, kind, r):
                cases.append((z3.And(*e.pc) if e.pc else z3.BoolVal(True), kind, r))
            sub.explore(body, on_end)
            for k in ('queries', 'sat', 'unsat', 'unknown', 'solver_time', 'stmts', 'calls'):
                self.stats[k] += sub.stats[k]
            ret = None
            panic = z3.BoolVal(False)
            isbool = None
            for pcx, kind, r in cases:
                if kind == 'panic':
                    panic = z3.Or(panic, pcx)
                else:
                    if isinstance(r, Int):
                        isbool = False
                        rz = r.z()
                    else:
                        isbool = True
                        rz = zb(r)
                    ret = rz if ret is None else z3.If(pcx, rz, ret)
            self.summaries[key] = (formals, z3.simplify(ret) if ret is not None else None, z3.simplify(panic), isbool,
                                   None if isbool or ret is None else ret.size())
        if self.summaries[key] is None:
            raise Unsupported('recursive summary')
        formals, ret, panic, isbool, w = self.summaries[key]
        subs = []

        def pair(fm, a):
            if isinstance(fm, Agg):
                for k in fm.f:
                    pair(fm.f[k], a.f[k])
            elif isinstance(fm, Int):
                subs.append((fm.v, a.z()))
            else:
                subs.append((fm, zb(a)))
        for fm, a in zip(formals, args):
            pair(fm, a)
        pcx = z3.simplify(z3.substitute(panic, *subs)) if subs else panic
        if not z3.is_false(pcx):
            lab = self.branch([('ok', z3.Not(pcx)), ('fail', pcx)])
            if lab == 'fail':
                raise Panic('panic inside ' + callee, callee)
        if ret is None:
            raise Panic('always panics: ' + callee, callee)
        r = z3.simplify(z3.substitute(ret, *subs)) if subs else ret
        return mk_bool(r) if isbool else mk_int(w, r)

    def _all_conc(self, a):
        if isinstance(a, Agg):
            return all(self._all_conc(v) for v in a.f.values()) and not (isinstance(a.variant, Int) and not a.variant.conc)
        if isinstance(a, Int):
            return a.conc
        return isinstance(a, bool)

    # ---- calls
    def call(self, callee, args, depth=0):
        self.stats['calls'] += 1
        if self.trace_calls:
            print('  ' * min(depth, 20) + 'CALL', callee, [repr(x)[:50] for x in args], file=sys.stderr)
        if self.summarize_re is not None and self.summarize_re.search(callee):
            try:
                return self.summarized_call(callee, args)
            except Unsupported:
                pass
        h = self.find_model(callee)
        if h is not None:
            self.models_used.add(h.__name__ if h.__name__ != '_' else callee.split('::<')[0])
            return h(self, callee, args)
        f = self.resolve(callee)
        if f is None:
            raise Unsupported('call to function without MIR or model: ' + callee)
        cm = re.search(r'::<([^<>]*)>$', callee)
        consts = [int(x) for x in (cm.group(1).split(',') if cm else []) if x.strip().isdigit()]
        return self.run(f, args, depth + 1, consts)

    def call_closure(self, cl, args):
        """cl: value whose type names a closure; args: list of argument values (already a tuple for Fn* shims)"""
        f = None
        if isinstance(cl, Opaque) and 'closure@' not in cl.what and re.search(r'\{(.*)\}$', cl.what):
            # a function item used where a closure is expected (`.map(Chunk::as_slice)`)
            return self.call(re.search(r'\{(.*)\}$', cl.what).group(1), list(args))
        if isinstance(cl, Opaque):
            f = self.closure_fn(cl.what)
        elif isinstance(cl, Agg) and 'closure@' in str(cl.ty):
            f = self.closure_fn(cl.ty)
        if f is None:
            raise Unsupported('closure call: ' + repr(cl))
        # FnOnce closures take their environment by value, Fn / FnMut closures by reference
        if f.params and not f.params[0][1].lstrip().startswith('&'):
            return self.run(f, [cl] + list(args))
        holder = {'c': cl}
        return self.run(f, [Ref(holder, 'c')] + list(args))

    def run(self, f, args, depth=0, consts=None):
        if depth > 80:
            raise Unsupported('call depth')
        self.encoded.add(f.name)
        loc = {'$consts': consts or []}
        for (p, t), a in zip(f.params, args):
            loc[p] = a
        bb = 'bb0'
        steps = 0
        blocks = f.blocks
        while True:
            steps += 1
            if steps > self.max_steps:
                raise Unsupported('step bound in ' + f.name)
            stmts, term = blocks[bb]
            for s in stmts:
                self.stmt(f, loc, s)
            self.stats['stmts'] += len(stmts) + 1
            if term == 'return':
                return loc.get('_0', UNIT)
            if term.startswith('goto -> '):
                bb = term[8:]
                continue
            if term.startswith('switchInt('):
                m = re.match(r'^switchInt\((.*)\) -> \[(.*)\]$', term)
                v = self.operand(f, loc, m.group(1))
                targets = [t.split(': ') for t in split_top(m.group(2))]
                bb = self.switch(v, targets)
                continue
            if term.startswith('assert('):
                m = re.match(r'^assert\((!?)(.*?), (".*?")(?:, .*)?\) -> \[success: (bb\d+), unwind.*\]$', term)
                c = self.tobool(self.operand(f, loc, m.group(2)))
                if m.group(1) == '!':
                    c = b_not(c)
                if c is not True:
                    lab = self.branch([('ok', c), ('fail', b_not(c))])
                    if lab == 'fail':
                        raise Panic('assert ' + m.group(3), f.name)
                bb = m.group(4)
                continue
            if term.startswith('drop('):
                m = re.match(r'^drop\((.*)\) -> \[return: (bb\d+), unwind.*\]$', term)
                bb = m.group(2)
                continue
            if term == 'unreachable':
                raise Panic('unreachable reached', f.name)
            m = re.match(r'^(.*?) = (.*)\((.*)\) -> \[return: (bb\d+), unwind.*\]$', term)
            if m:
                dst, callee, argtxt, nxt = m.groups()
                args2 = [self.operand(f, loc, a) for a in split_top(argtxt)]
                if re.match(r'^(move|copy) _\d+$', callee):
                    # indirect call through a closure / fn value
                    fv = self.operand(f, loc, callee)
                    r = self.call_closure(fv, args2)
                else:
                    r = self.call(callee, args2, depth)
                self.place(f, loc, dst).set(r)
                bb = nxt
                continue
            m = re.match(r'^(.*?) = (.*?)\((.*)\) -> (?:unwind.*|bb\d+)$', term)
            if m:
                raise Panic('diverging call ' + m.group(2), f.name)
            m = re.match(r'^(.*)\((.*)\) -> unwind.*$', term)
            if m:
                raise Panic('diverging call ' + m.group(1), f.name)
            if term in ('resume', 'abort') or term.startswith('resume') or term.startswith('terminate'):
                raise Panic('unwinding', f.name)
            raise Unsupported('terminator: ' + term)

    def tobool(self, c):
        if isinstance(c, bool) or z3.is_bool(c):
            return c
        if isinstance(c, Int):
            return (c.v != 0) if c.conc else mk_bool(c.v != 0)
        raise Unsupported('tobool ' + repr(c))

    def switch(self, v, targets):
        if isinstance(v, bool):
            v = Int(8, 1 if v else 0)
        elif z3.is_bool(v) if not isinstance(v, Int) else False:
            v = Int(8, z3.If(v, z3.BitVecVal(1, 8), z3.BitVecVal(0, 8)))
        if isinstance(v, Agg):
            v = self.discr(v)
        if v.conc:
            other = None
            for val, tgt in targets:
                if val == 'otherwise':
                    other = tgt
                elif int(val) & ((1 << v.w) - 1) == v.v:
                    return tgt
            if other is None:
                raise Panic('switchInt without matching arm', '')
            return other
        opts = []
        others = []
        for val, tgt in targets:
            if val == 'otherwise':
                continue
            c = v.v == z3.BitVecVal(int(val), v.w)
            opts.append((tgt, c))
            others.append(c)
        for val, tgt in targets:
            if val == 'otherwise':
                opts.append((tgt, z3.Not(z3.Or(*others)) if others else True))
        # merge options with identical targets
        merged = {}
        order = []
        for tgt, c in opts:
            if tgt in merged:
                merged[tgt] = b_or(merged[tgt], c)
            else:
                merged[tgt] = c
                order.append(tgt)
        return self.branch([(t, merged[t]) for t in order])

    # ---- places
    def place(self, f, loc, txt):
        txt = txt.strip()
        if txt[0] == '_' and txt[1:].isdigit():
            return Ref(loc, txt)
        if txt.startswith('(*') and txt.endswith(')') and self._balanced(txt[2:-1]):
            inner = self.place(f, loc, txt[2:-1]).get()
            if isinstance(inner, Ref):
                return inner
            if isinstance(inner, Agg) and inner.ty in ('Box', 'Arc', 'Rc'):
                return Ref(inner.f, 0)
            raise Unsupported('deref of non-reference ' + txt + ' = ' + repr(inner)[:80])
        if txt.startswith('(') and txt.endswith(')'):
            body = txt[1:-1]
            m = re.match(r'^(.*) as (\w+)$', body)
            if m and self._balanced(m.group(1)):
                return self.place(f, loc, m.group(1))
            idx = self._field_split(body)
            if idx:
                base, n = idx
                b = self.place(f, loc, base).get()
                if hasattr(b, 'mirx_field'):
                    return b.mirx_field(n)
                if not isinstance(b, Agg):
                    raise Unsupported(f'field {n} of non-aggregate {base}: {b!r}'[:160])
                if n not in b.f:
                    raise Unsupported(f'missing field {n} in {b!r}'[:160])
                return Ref(b.f, n)
        m = re.match(r'^(.*)\[(_\d+)\]$', txt)
        if m:
            b = self.place(f, loc, m.group(1)).get()
            i = loc[m.group(2)]
            return self.index_place(b, i)
        m = re.match(r'^(.*)\[(\d+) of (\d+)\]$', txt)
        if m:
            b = self.place(f, loc, m.group(1)).get()
            return self.index_place(b, Int(64, int(m.group(2))))
        raise Unsupported('place: ' + txt)

    def index_place(self, b, i):
        if hasattr(b, 'mirx_index'):
            return b.mirx_index(self, i)
        if not isinstance(b, ListV):
            raise Unsupported('index into ' + repr(b)[:80])
        k = self.concretize_int(i, list(range(len(b.items))), 'index')
        if k >= len(b.items):
            raise Panic('index out of bounds', '')
        return Ref(b.items, k)

    def _balanced(self, s):
        d = 0
        for c in s:
            if c == '(':
                d += 1
            elif c == ')':
                d -= 1
                if d < 0:
                    return False
        return d == 0

    def _field_split(self, body):
        d = 0
        last = None
        for i, c in enumerate(body):
            if c in '(<[':
                d += 1
            elif c in ')]':
                d -= 1
            elif c == '>' and body[i - 1] != '-':
                d -= 1
            elif c == '.' and d == 0:
                m = re.match(r'^\.(\d+): ', body[i:])
                if m:
                    last = (body[:i], int(m.group(1)))
                    return last
        return last

    # ---- constants
    def const(self, f, txt):
        txt = txt.strip()
        if txt == 'true':
            return True
        if txt == 'false':
            return False
        m = re.match(r'^(-?\d+)_(\w+)$', txt)
        if m:
            return Int(INT_W[m.group(2)], int(m.group(1)))
        if txt == '()':
            return UNIT
        if txt.startswith('"') or txt.startswith('b"'):
            return Opaque(txt)
        if txt.startswith("'"):
            ch = txt[1:-1]
            if ch.startswith('\\'):
                ch = {'\\n': '\n', '\\t': '\t', '\\0': '\0', "\\'": "'", '\\\\': '\\', '\\r': '\r'}.get(ch, ch[-1])
            return Int(32, ord(ch))
        if txt.startswith('ZeroSized'):
            tm = re.match(r'^ZeroSized: (.*)$', txt)
            return Opaque(tm.group(1) if tm else txt)
        if txt == '[]':
            return ListV('array', [])
        if txt.startswith('{transmute('):
            m = re.match(r'^\{transmute\((0x[0-9a-f]+)\): (.*)\}$', txt)
            if m:
                return self.transmute_const(int(m.group(1), 16), m.group(2))
        m = re.match(r'^(.*)::(\w+)$', txt)
        if m and '(' not in txt:
            tyl = re.sub(r'(::)?<.*$', '', m.group(1)).split('::')[-1]
            info = self.enum_info.get(tyl)
            if info is not None and m.group(2) in info:
                return Agg(tyl, {}, info[m.group(2)])
            if tyl in ('Option', 'Ordering') and m.group(2) in ('None', 'Less', 'Equal', 'Greater'):
                return self.mk_variant(m.group(1), m.group(2), {})
        if txt.startswith('tracing::') or txt.startswith('tracing_core::'):
            return Opaque(txt)
        r = self.named_const(txt, f)
        if r is not None:
            return r
        raise Unsupported('const ' + txt)

    def transmute_const(self, raw, ty):
        tyl = re.sub(r'<.*$', '', ty).split('::')[-1]
        if tyl in INT_W:
            return Int(INT_W[tyl], raw)
        info = self.enum_info.get(tyl)
        if info is not None:
            return Agg(tyl, {}, raw)
        raise Unsupported('transmute const of ' + ty)

    def named_const(self, name, cur=None):
        m = re.match(r'^(?:core|std)::num::<impl ([ui](?:\d+|size))>::(MAX|MIN|BITS)$', name) or re.match(r'^([ui](?:\d+|size))::(MAX|MIN|BITS)$', name)
        if m:
            t, what = m.group(1), m.group(2)
            w = INT_W[t]
            if what == 'BITS':
                return Int(32, w)
            if t in SIGNED:
                return Int(w, (1 << (w - 1)) - 1 if what == 'MAX' else -(1 << (w - 1)))
            return Int(w, (1 << w) - 1 if what == 'MAX' else 0)
        if re.match(r'^(core|std|alloc)::', name):
            return None
        pm = re.search(r'::(promoted\[\d+\])$', name)
        if pm and cur is not None:
            k = 'const:' + cur.name.replace('const:', '') + '::' + pm.group(1)
            if k in self.fns:
                return self.run(self.fns[k], [])
        if not hasattr(self, '_const_idx'):
            self._const_idx = {}
            for k, fn in self.fns.items():
                if k.startswith('const:'):
                    segs = re.sub(r'<impl at [^>]*>', '', k[6:]).split('::')
                    segs = [x for x in segs if x]
                    self._const_idx.setdefault(segs[-1], []).append((segs, fn))
        segs = [x for x in re.sub(r'<[^>]*>', '', name).split('::') if x]
        if not segs:
            return None
        cands = self._const_idx.get(segs[-1], [])
        best = None
        for (cs, fn) in cands:
            n = 0
            while n < len(cs) and n < len(segs) and cs[-1 - n] == segs[-1 - n]:
                n += 1
            if best is None or n > best[0]:
                best = (n, fn)
        if best is not None:
            return self.run(best[1], [])
        return None

    # ---- operands / rvalues
    def operand(self, f, loc, txt):
        txt = txt.strip()
        if txt.startswith('move '):
            return self.place(f, loc, txt[5:]).get()
        if txt.startswith('copy '):
            v = self.place(f, loc, txt[5:]).get()
            return clone_val(v) if isinstance(v, (Agg, ListV, MapV)) or hasattr(v, 'mirx_clone') else v
        if txt.startswith('const '):
            return self.const(f, txt[6:])
        if re.match(r'^[<\w].*::\w+(::<.*>)?$', txt):
            return Opaque('fn {' + txt + '}')          # a function item used as a value (e.g. passed to Option::map)
        raise Unsupported('operand: ' + txt)

    def stmt(self, f, loc, s):
        if s.startswith(_STMT_SKIP):
            return
        i = s.find(' = ')
        if i < 0:
            if s.startswith('Deinit(') or s.startswith('assume('):
                return
            m = re.match(r'^discriminant\((.*)\) = (\d+)$', s)
            raise Unsupported('stmt: ' + s)
        dst, rv = s[:i], s[i + 3:]
        if dst.startswith('discriminant('):
            tgt = self.place(f, loc, dst[13:-1]).get()
            tgt.variant = int(rv)
            return
        v = self.rvalue(f, loc, rv, dst)
        self.place(f, loc, dst).set(v)

    def signed_of(self, f, loc, optxt):
        optxt = optxt.strip()
        m = re.match(r'^(?:copy|move) (_\d+)$', optxt)
        if m:
            return f.locals.get(m.group(1)) in SIGNED
        m = re.match(r'^const -?\d+_(\w+)$', optxt)
        if m:
            return m.group(1) in SIGNED
        m = re.search(r': (\w+)\)$', optxt)
        if m:
            return m.group(1) in SIGNED
        return False

    def rvalue(self, f, loc, rv, dst=None):
        rv = rv.strip()
        if rv.startswith('no_retag '):
            rv = rv[9:]
        c0 = rv[:5]
        if c0 in ('const', 'copy ', 'move '):
            if rv.endswith(')') and ' as ' in rv:
                m = re.match(r'^(.*) as (.*) \((\w+(?:\([^)]*\))?)\)$', rv)
                if m and self._balanced(m.group(1)):
                    v = self.operand(f, loc, m.group(1))
                    return self.cast(v, m.group(2), m.group(3), self.signed_of(f, loc, m.group(1)))
            return self.operand(f, loc, rv)
        if rv.startswith('&mut '):
            return self.place(f, loc, rv[5:])
        if rv.startswith('&raw '):
            return self.place(f, loc, re.sub(r'^&raw (const|mut) ', '', rv))
        if rv.startswith('&'):
            return self.place(f, loc, rv[1:])
        m = re.match(r'^(\w+)\((.*)\)$', rv)
        if m:
            op = m.group(1)
            if op in BINOPS:
                a, b = split_top(m.group(2))
                sg = self.signed_of(f, loc, a)
                return self.binop(op, self.operand(f, loc, a), self.operand(f, loc, b), sg)
            if op == 'discriminant':
                return self.discr(self.place(f, loc, m.group(2)).get())
            if op == 'Not':
                v = self.operand(f, loc, m.group(2))
                if isinstance(v, bool):
                    return not v
                if isinstance(v, Int):
                    return Int(v.w, (~v.v) if v.conc else ~v.v)
                return mk_bool(z3.Not(v))
            if op == 'Neg':
                v = self.operand(f, loc, m.group(2))
                return Int(v.w, -v.v)
            if op == 'Len':
                v = self.place(f, loc, m.group(2)).get()
                return Int(64, len(v.items))
            if op == 'PtrMetadata':
                v = self.operand(f, loc, m.group(2))
                if isinstance(v, Ref):
                    v = v.get()
                if isinstance(v, ListV):
                    return Int(64, len(v.items))
                raise Unsupported('PtrMetadata of ' + repr(v)[:60])
        if rv.startswith('[') and rv.endswith(']'):
            inner = rv[1:-1]
            rm = re.match(r'^(.*); (\d+)$', inner)
            if rm and self._balanced(rm.group(1)):
                v = self.operand(f, loc, rm.group(1))
                return ListV('array', [clone_val(v) for _ in range(int(rm.group(2)))])
            rm = re.match(r'^(.*); ([A-Z]\w*)$', inner)
            if rm and self._balanced(rm.group(1)):
                # [v; N] with a const generic parameter: its value comes from the caller's turbofish (`next_n::<2>`)
                cs = loc.get('$consts') or []
                if len(cs) != 1:
                    raise Unsupported('array length is a const generic without a unique binding: ' + rv)
                v = self.operand(f, loc, rm.group(1))
                return ListV('array', [clone_val(v) for _ in range(cs[0])])
            return ListV('array', [self.operand(f, loc, x) for x in split_top(inner)])
        return self.aggregate(f, loc, rv, dst)

    def discr(self, v):
        if isinstance(v, Agg):
            if isinstance(v.variant, int):
                return Int(64, v.variant)
            if isinstance(v.variant, Int):
                if v.ty == 'Ordering':     # repr(i8): Less = -1
                    return Int(64, v.variant.signed_val() if v.variant.conc else z3.SignExt(64 - v.variant.w, v.variant.v))
                return Int(64, v.variant.v if v.variant.conc else (z3.ZeroExt(64 - v.variant.w, v.variant.v) if v.variant.w < 64 else v.variant.v))
            raise Unsupported('discriminant of struct ' + repr(v)[:60])
        if isinstance(v, Int):
            return Int(64, v.v if v.conc else (z3.ZeroExt(64 - v.w, v.v) if v.w < 64 else v.v))
        raise Unsupported('discriminant of ' + repr(v)[:60])

    def cast(self, v, ty, kind, src_signed=False):
        if kind == 'IntToInt':
            if isinstance(v, bool):
                v = Int(8, 1 if v else 0)
            elif not isinstance(v, (Int, Agg)) and z3.is_bool(v):
                v = Int(8, z3.If(v, z3.BitVecVal(1, 8), z3.BitVecVal(0, 8)))
            if isinstance(v, Agg):
                v = self.discr(v)
            w = INT_W[ty]
            sw = v.w
            if v.conc:
                return Int(w, v.signed_val() if src_signed else v.v)
            if w == sw:
                return v
            if w < sw:
                return mk_int(w, z3.simplify(z3.Extract(w - 1, 0, v.v)))
            return Int(w, z3.SignExt(w - sw, v.v) if src_signed else z3.ZeroExt(w - sw, v.v))
        if kind.startswith('PointerCoercion') or kind in ('Transmute', 'PtrToPtr', 'Subtype'):
            return v
        raise Unsupported('cast ' + kind)

    def binop(self, op, a, b, signed):
        if isinstance(a, bool) or (not isinstance(a, (Int, Agg)) and z3.is_bool(a)):
            b = self.tobool(b)
            if op == 'Eq':
                return b_ite_bool(a, b, b_not(b)) if not (isinstance(a, bool) and isinstance(b, bool)) else a == b
            if op == 'Ne':
                return b_ite_bool(a, b_not(b), b) if not (isinstance(a, bool) and isinstance(b, bool)) else a != b
            if op == 'BitAnd':
                return b_and(a, b)
            if op == 'BitOr':
                return b_or(a, b)
            if op == 'BitXor':
                return b_ite_bool(a, b_not(b), b)
            raise Unsupported('bool binop ' + op)
        if isinstance(a, Agg):
            a = self.discr(a)
        if isinstance(b, Agg):
            b = self.discr(b)
        w = a.w
        if op in ('Shl', 'Shr', 'ShlUnchecked', 'ShrUnchecked') and b.w != w:
            b = Int(w, b.v) if b.conc else Int(w, z3.ZeroExt(w - b.w, b.v) if b.w < w else z3.Extract(w - 1, 0, b.v))
        if a.conc and b.conc:
            return self._binop_conc(op, a, b, signed)
        x, y = a.z(), b.z()
        if op in ('Add', 'AddUnchecked'):
            return mk_int(w, z3.simplify(x + y))
        if op in ('Sub', 'SubUnchecked'):
            return mk_int(w, z3.simplify(x - y))
        if op in ('Mul', 'MulUnchecked'):
            return Int(w, x * y)
        if op == 'BitAnd':
            return mk_int(w, z3.simplify(x & y))
        if op == 'BitOr':
            return mk_int(w, z3.simplify(x | y))
        if op == 'BitXor':
            return Int(w, x ^ y)
        if op in ('Shl', 'ShlUnchecked'):
            return mk_int(w, z3.simplify(x << y))
        if op in ('Shr', 'ShrUnchecked'):
            return mk_int(w, z3.simplify((x >> y) if signed else z3.LShR(x, y)))
        if op == 'Div':
            return Int(w, (x / y) if signed else z3.UDiv(x, y))
        if op == 'Rem':
            return Int(w, z3.SRem(x, y) if signed else z3.URem(x, y))
        if op == 'Eq':
            return mk_bool(z3.simplify(x == y))
        if op == 'Ne':
            return mk_bool(z3.simplify(x != y))
        if op == 'Lt':
            return mk_bool(z3.simplify((x < y) if signed else z3.ULT(x, y)))
        if op == 'Le':
            return mk_bool(z3.simplify((x <= y) if signed else z3.ULE(x, y)))
        if op == 'Gt':
            return mk_bool(z3.simplify((x > y) if signed else z3.UGT(x, y)))
        if op == 'Ge':
            return mk_bool(z3.simplify((x >= y) if signed else z3.UGE(x, y)))
        if op == 'AddWithOverflow':
            ov = z3.Not(z3.BVAddNoOverflow(x, y, signed)) if not signed else z3.Or(z3.Not(z3.BVAddNoOverflow(x, y, True)), z3.Not(z3.BVAddNoUnderflow(x, y)))
            return Agg('tuple', {0: mk_int(w, z3.simplify(x + y)), 1: mk_bool(z3.simplify(ov))})
        if op == 'SubWithOverflow':
            ov = z3.ULT(x, y) if not signed else z3.Or(z3.Not(z3.BVSubNoOverflow(x, y)), z3.Not(z3.BVSubNoUnderflow(x, y, True)))
            return Agg('tuple', {0: mk_int(w, z3.simplify(x - y)), 1: mk_bool(z3.simplify(ov))})
        if op == 'MulWithOverflow':
            ov = z3.Not(z3.BVMulNoOverflow(x, y, signed))
            return Agg('tuple', {0: Int(w, x * y), 1: mk_bool(z3.simplify(ov))})
        if op == 'Cmp':
            lt = (x < y) if signed else z3.ULT(x, y)
            eq = x == y
            return Agg('Ordering', {}, Int(8, z3.If(lt, z3.BitVecVal(255, 8), z3.If(eq, z3.BitVecVal(0, 8), z3.BitVecVal(1, 8)))))
        raise Unsupported('binop ' + op)

    def _binop_conc(self, op, a, b, signed):
        w = a.w
        M = (1 << w) - 1
        x, y = (a.signed_val(), b.signed_val()) if signed else (a.v, b.v)
        if op in ('Add', 'AddUnchecked'):
            return Int(w, x + y)
        if op in ('Sub', 'SubUnchecked'):
            return Int(w, x - y)
        if op in ('Mul', 'MulUnchecked'):
            return Int(w, x * y)
        if op == 'BitAnd':
            return Int(w, a.v & b.v)
        if op == 'BitOr':
            return Int(w, a.v | b.v)
        if op == 'BitXor':
            return Int(w, a.v ^ b.v)
        if op in ('Shl', 'ShlUnchecked'):
            return Int(w, a.v << (b.v % w)) if b.v < w else Int(w, 0)
        if op in ('Shr', 'ShrUnchecked'):
            if b.v >= w:
                return Int(w, -1 if (signed and x < 0) else 0)
            return Int(w, x >> b.v)
        if op == 'Div':
            if y == 0:
                raise Panic('division by zero', '')
            q = abs(x) // abs(y)
            return Int(w, q if (x < 0) == (y < 0) else -q)
        if op == 'Rem':
            if y == 0:
                raise Panic('remainder by zero', '')
            r = abs(x) % abs(y)
            return Int(w, r if x >= 0 else -r)
        if op == 'Eq':
            return a.v == b.v
        if op == 'Ne':
            return a.v != b.v
        if op == 'Lt':
            return x < y
        if op == 'Le':
            return x <= y
        if op == 'Gt':
            return x > y
        if op == 'Ge':
            return x >= y
        lo, hi = (-(1 << (w - 1)), (1 << (w - 1)) - 1) if signed else (0, M)
        if op == 'AddWithOverflow':
            r = x + y
            return Agg('tuple', {0: Int(w, r), 1: not (lo <= r <= hi)})
        if op == 'SubWithOverflow':
            r = x - y
            return Agg('tuple', {0: Int(w, r), 1: not (lo <= r <= hi)})
        if op == 'MulWithOverflow':
            r = x * y
            return Agg('tuple', {0: Int(w, r), 1: not (lo <= r <= hi)})
        if op == 'Cmp':
            return Agg('Ordering', {}, Int(8, 255 if x < y else (0 if x == y else 1)))
        raise Unsupported('binop ' + op)

    def aggregate(self, f, loc, rv, dst):
        if rv.startswith('(') and rv.endswith(')'):
            items = split_top(rv[1:-1])
            return Agg('tuple', {i: self.operand(f, loc, x) for i, x in enumerate(items)})
        m = re.match(r'^\{closure@[^}]*\}$', rv)
        if m:
            return Opaque(rv)
        m = re.match(r'^(\{coroutine@[^}]*\}) \{ (.*) \}$', rv)
        if m:
            fields = split_top(m.group(2))
            vals, names = {}, []
            for i, fl in enumerate(fields):
                k, v = fl.split(': ', 1)
                names.append(k)
                vals[i] = self.operand(f, loc, v)
            return Agg('{coroutine}|' + ','.join(names), vals)
        m = re.match(r'^(\{closure@[^}]*\}) \{ (.*) \}$', rv) or re.match(r'^(\{closure@[^}]*\})\((.*)\)$', rv)
        if m:
            fields = split_top(m.group(2))
            vals = {}
            for i, fl in enumerate(fields):
                v = fl.split(': ', 1)[1] if re.match(r'^\w+: ', fl) else fl
                vals[i] = self.operand(f, loc, v)
            return Agg(m.group(1), vals)
        m = re.match(r'^([\w:<>, \[\];&\']+?) \{ (.*) \}$', rv)
        if m:
            fields = split_top(m.group(2))
            vals = {}
            for i, fl in enumerate(fields):
                k, v = fl.split(': ', 1)
                vals[i] = self.operand(f, loc, v)
            return self.mk_struct(m.group(1), vals)
        m = re.match(r'^((?:[\w:, \[\];&\']|<.*>)+?)::(\w+)\((.*)\)$', rv)
        if m:
            items = split_top(m.group(3))
            return self.mk_variant(m.group(1), m.group(2), {i: self.operand(f, loc, x) for i, x in enumerate(items)})
        m = re.match(r'^([\w:]+(?:<.*>)?)\((.*)\)$', rv)
        if m:
            items = split_top(m.group(2))
            return Agg(re.sub(r'<.*$', '', m.group(1)).split('::')[-1], {i: self.operand(f, loc, x) for i, x in enumerate(items)})
        m = re.match(r'^((?:[\w:, \[\];&\']|<.*>)+?)::(\w+)$', rv)
        if m:
            return self.mk_variant(m.group(1), m.group(2), {})
        m = re.match(r'^(\w+)$', rv)
        if m and dst is not None:
            dty = f.ret if dst.strip() == '_0' else f.locals.get(dst.strip())
            if dty:
                return self.mk_variant(dty, rv, {})
        m = re.match(r'^([\w:<>, ]+)$', rv)
        if m:
            return Agg(re.sub(r'<.*$', '', rv).split('::')[-1], {})
        raise Unsupported('rvalue: ' + rv)

    def mk_struct(self, ty, vals):
        return Agg(re.sub(r'(::)?<.*$', '', ty).split('::')[-1], vals)

    def mk_variant(self, ty, var, vals):
        tyl = re.sub(r'(::)?<.*$', '', ty).split('::')[-1]
        info = self.enum_info.get(tyl)
        if info is not None and var not in info:
            info = None
        if info is None:
            if tyl == 'Option':
                info = {'None': 0, 'Some': 1}
            elif tyl == 'Result':
                info = {'Ok': 0, 'Err': 1}
            elif tyl == 'Ordering':
                return Agg('Ordering', {}, Int(8, {'Less': 255, 'Equal': 0, 'Greater': 1}[var]))
            elif tyl == 'ControlFlow':
                info = {'Continue': 0, 'Break': 1}
            else:
                return Agg(var, vals)
        return Agg(tyl, vals, info[var])
