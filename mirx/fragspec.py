"""C10 (content part): the real fragmentation::fragment MIR with the payload as a provenance extent: piece i must carry exactly
bytes [8*(off_i - off_in), +len_i) of the input payload - consecutive, non-overlapping, complete - where off_i is the offset
recorded in the piece's own header."""
import re, time, traceback
import z3
from .core import Int, Agg, Ref, ListV, Panic, Unsupported, PathEnd, sym_int, mk_bool, b_and, b_or, b_not, clone_val
from . import loader
from .msgmodel import MsgV, msg_of, normalize
from .reasmspec import Hdr, addr, _valid, SpecViolation

U16 = lambda v: Int(16, v)
U64 = lambda v: Int(64, v)


def run_unit(ex, H, unit, res):
    def body(ex):
        mtu = sym_int('mtu', 16)
        ex.assume(ex.binop('Ge', mtu, U16(unit['mtu_lo']), False))
        ex.assume(ex.binop('Le', mtu, U16(unit['mtu_hi']), False))
        total = sym_int('total', 16)
        ex.assume(ex.binop('Ge', total, U16(20), False))
        per = ex.binop('Mul', ex.binop('Div', ex.binop('Sub', mtu, U16(20), False), U16(8), False), U16(8), False)
        payload = ex.binop('Sub', total, U16(20), False)
        ex.assume(ex.binop('Le', ex.cast(payload, 'u64', 'IntToInt'), ex.binop('Mul', ex.cast(per, 'u64', 'IntToInt'), U64(unit['pieces']), False), False))
        off_in = sym_int('off_in', 16)
        ex.assume(ex.binop('Le', off_in, U16(4000), False))
        mf_in = unit['mf_in']
        hdr = H.make('h', total, off_in, mf_in, sym_int('id', 16), addr('s'), addr('d'), sym_int('proto', 8), sym_int('ttl', 8))
        plen64 = ex.cast(payload, 'u64', 'IntToInt')
        r = ex.call('fragment', [clone_val(hdr), msg_of('D', U64(0), plen64), mtu])
        info = ex.enum_info['Fragments']
        res['obligations'] += 1
        if r.variant == info['DontFragment']:
            tup = r.f[0]
            ext = normalize(ex, tup.f[1])
            if ext:
                okv, m = _valid(ex, b_and(ex.binop('Eq', ext[0][1], U64(0), False), ex.binop('Eq', ext[0][2], plen64, False)))
                if not okv or len(ext) != 1:
                    raise SpecViolation('passthrough-body-changed', 'a datagram that fits the MTU was not passed through with its payload unchanged', m)
            return 'pass-through'
        if r.variant == info['Discard']:
            raise SpecViolation('discard-with-df-clear', 'Discard although DF is clear')
        pieces = r.f[0].items
        pos = U64(0)
        for i, pc in enumerate(pieces):
            ph, pb = pc.f[0], pc.f[1]
            ext = normalize(ex, pb)
            res['obligations'] += 1
            if len(ext) == 0:
                # an empty piece carries no payload: it is a (degenerate) piece of the partition as long as its header says so
                okv, m = _valid(ex, ex.binop('Eq', H.get(ph, 'total_length'), U16(20), False))
                if not okv:
                    raise SpecViolation('piece-length-field', f'piece {i}: empty payload but total_length is not 20', m)
                continue
            if len(ext) != 1 or ext[0][0] != 'D':
                raise SpecViolation('piece-not-one-range', f'piece {i} of {len(pieces)} is not one contiguous range of the input payload: {[(e[0], str(e[1].v), str(e[2].v)) for e in ext][:3]}')
            # starts where the previous piece ended, and where its own header says it does
            hdr_off = ex.binop('Mul', ex.cast(ex.binop('Sub', H.get(ph, 'fragment_offset'), off_in, False), 'u64', 'IntToInt'), U64(8), False)
            okv, m = _valid(ex, b_and(ex.binop('Eq', ext[0][1], pos, False), ex.binop('Eq', ext[0][1], hdr_off, False)))
            if not okv:
                raise SpecViolation('piece-misplaced', f'piece {i} of {len(pieces)} does not carry the bytes at the offset recorded in its header / following the previous piece', m)
            okv, m = _valid(ex, ex.binop('Eq', ex.binop('Add', ext[0][2], U64(20), False), ex.cast(H.get(ph, 'total_length'), 'u64', 'IntToInt'), False))
            if not okv:
                raise SpecViolation('piece-length-field', f'piece {i}: total_length does not equal 20 + payload length', m)
            pos = ex.binop('Add', pos, ext[0][2], False)
        okv, m = _valid(ex, ex.binop('Eq', pos, plen64, False))
        if not okv:
            raise SpecViolation('pieces-incomplete', 'the pieces do not cover the whole input payload', m)
        return f'{len(pieces)} pieces'

    def on_end(ex, kind, r):
        res['paths'] += 1
        if kind == 'panic':
            res['violations'].append({'key': f'mirx:frag:panic:{r.msg[:60]}', 'desc': f'panic in {r.site}: {r.msg}', 'values': ex.model_values(), 'unit': res['unit']})
        elif len(res['samples']) < 3 and r not in res['samples']:
            res['samples'].append(r)

    def wrapped(ex):
        try:
            return body(ex)
        except SpecViolation as v:
            m = v.model if v.model is not None else ex.check_sat()[1]
            vals = {}
            if m is not None:
                for d in m.decls():
                    try:
                        vals[str(d)] = m[d].as_long()
                    except Exception:
                        pass
            res['violations'].append({'key': f'mirx:frag:{v.role}', 'desc': v.desc, 'values': vals, 'unit': res['unit']})
            raise PathEnd()

    ex.explore(wrapped, on_end, deadline=unit.get('deadline'))


def units(tier):
    us = []
    for mf in (False, True):
        us.append({'mtu_lo': 68, 'mtu_hi': 200, 'pieces': 3, 'mf_in': mf})
        us.append({'mtu_lo': 201, 'mtu_hi': 1500, 'pieces': 3 if tier == 'quick' else 5, 'mf_in': mf})
        if tier != 'quick':
            us.append({'mtu_lo': 1501, 'mtu_hi': 65535, 'pieces': 4, 'mf_in': mf})
    return us


_W = {}


def worker(args):
    unit, budget = args
    if not _W:
        _W['l'] = loader.load()
        _W['H'] = Hdr(_W['l'][2])
    fns, enums, src = _W['l']
    ex = loader.new_exec(fns, enums, src)
    res = {'unit': dict(unit), 'paths': 0, 'obligations': 0, 'violations': [], 'samples': [], 'unsupported': []}
    t0 = time.time()
    u = dict(unit, deadline=t0 + budget)
    try:
        run_unit(ex, _W['H'], u, res)
    except Unsupported as e:
        res['unsupported'].append(str(e)[:300])
    except Exception as e:
        res['unsupported'].append(f'internal error {e!r}: ' + traceback.format_exc()[-600:])
    res['wall'] = time.time() - t0
    res['stats'] = dict(ex.stats)
    res['encoded'] = sorted(ex.encoded)
    res['models'] = sorted(ex.models_used)
    return res
