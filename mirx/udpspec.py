"""C04 (function level): the real MIR of Udp::{listen, demux}, UdpSession::receive, Ipv4::listen, UdpHeader::from_bytes_ipv4,
Endpoints/Endpoint constructors and the real Message (chunks over symbolic bytes), with the machine environment modelled:
`Machine::protocol::<T>()` / `Machine::get(id)` return the protocols of a modelled machine, the upstream applications are
recording stubs (`<dyn Protocol>::demux` records what it is handed), `Control` is a typed dictionary, DashMap a finite map.

Scenario: up to three listen() calls with symbolic (address, port) - the solver decides which coincide, which are the wildcard
0.0.0.0 - then one datagram with symbolic addresses, ports and payload bytes goes through demux()."""
import re, time, traceback
import z3
from .core import Int, Agg, Ref, ListV, MapV, Opaque, Panic, Unsupported, PathEnd, sym_int, mk_bool, b_and, b_or, b_not, clone_val, UNIT, some, none
from . import loader
from .models import iter_next_val, deref
from .reasmspec import Hdr, _valid, SpecViolation
from .ipspec import ipaddr_of_u32, u32_of_ipaddr

U16 = lambda v: Int(16, v)
U32 = lambda v: Int(32, v)
U64 = lambda v: Int(64, v)


def install_env(ex):
    """environment models; they read the per-path environment from ex.env (set at the start of every path)"""
    M = ex.model

    @M(r'^control::Control::new$|^<control::Control as Default>::default$|^Control::new$')
    def control_new(ex, c, a):
        return Agg('Control', {0: MapV('typed', [])})

    @M(r'^(control::)?Control::insert::<')
    def control_insert(ex, c, a):
        t = re.search(r'insert::<(.*)>$', c).group(1).split('::')[-1]
        m = deref(a[0]).f[0]
        m.items = [(k, v) for (k, v) in m.items if k != t] + [(t, a[1])]
        return UNIT

    @M(r'^(control::)?Control::get::<')
    def control_get(ex, c, a):
        t = re.search(r'get::<(.*)>$', c).group(1).split('::')[-1]
        m = deref(a[0]).f[0]
        for i, (k, v) in enumerate(m.items):
            if k == t:
                from .models import _PairRef
                return some(Ref(_PairRef(m.items, i), 1))
        return none()

    @M(r'^Machine::protocol::<')
    def machine_protocol(ex, c, a):
        t = re.search(r'protocol::<(.*)>$', c).group(1).split('::')[-1]
        p = ex.env['protocols'].get(t)
        return some(Agg('Arc', {0: p})) if p is not None else none()

    @M(r'^Machine::get$')
    def machine_get(ex, c, a):
        tid = a[1]
        for (k, stub) in ex.env['apps']:
            if ex.concretize_bool(ex.binop('Eq', k, tid.f[0], False)):
                return some(Agg('Arc', {0: stub}))
        return none()

    @M(r'^<Arc<dyn Protocol> as Deref>::deref$|^<Arc<.*> as Deref>::deref$')
    def arc_deref_any(ex, c, a):
        v = deref(a[0])
        if isinstance(v, Agg) and v.ty == 'Arc':
            return Ref(v.f, 0)
        raise Unsupported('deref of ' + repr(v)[:50])

    @M(r'^<dyn Protocol as Protocol>::demux$')
    def dyn_demux(ex, c, a):
        proto, message, caller, control, machine = deref(a[0]), a[1], a[2], a[3], a[4]
        ex.env['deliveries'].append({'app': proto, 'message': message, 'session': caller, 'control': control})
        return Agg('Result', {0: UNIT}, 0)

    @M(r'^ArpTable::set_mac$')
    def arp_set_mac(ex, c, a):
        ex.env.setdefault('arp_sets', []).append((a[1], a[2]))
        return UNIT

    @M(r'^<dyn Session as Session>::send$')
    def dyn_session_send(ex, c, a):
        ex.env.setdefault('sends', []).append(a[1])
        return Agg('Result', {0: UNIT}, 0)

    @M(r'^receive_message_event$|^send_message_event$|^logging::')
    def logging_noop(ex, c, a):
        return UNIT

    @M(r'^Arp::listen$')
    def arp_listen(ex, c, a):
        ex.env.setdefault('arp_listens', []).append(a[1])
        return UNIT


def real_msg_bytes(ex, msg):
    hold = {'m': msg}
    it = ex.call('Message::iter', [Ref(hold, 'm')])
    out = []
    while True:
        nx = iter_next_val(ex, it)
        if nx.variant == 0:
            return out
        out.append(deref(nx.f[0]))


def endpoint(addr32, port):
    return Agg('Endpoint', {0: None, 1: port})


def run_unit(ex, H, unit, res):
    nb = unit['bindings']
    npay = unit['payload']

    def body(ex):
        env = {'protocols': {}, 'apps': [], 'deliveries': []}
        ex.env = env
        udp = {'u': ex.call('Udp::new', [])}
        ipv4 = ex.call('Ipv4::new', [MapV('HashMap', [])]) if False else None
        # the IPv4 protocol of this machine: the real struct with its real listen_bindings map
        ip = ex.call('<Ipv4 as Default>::default', []) if ex.resolve('<Ipv4 as Default>::default') else None
        if ip is None:
            ip = Agg('Ipv4', {0: MapV('DashMap', []), 1: MapV('HashMap', [])})
        env['protocols']['Ipv4'] = ip
        machine = Agg('Arc', {0: Opaque('machine')})
        # ---- bindings
        binds = []
        log = []
        for i in range(nb):
            a = sym_int(f'baddr{i}', 32)
            p = sym_int(f'bport{i}', 16)
            appid = Int(64, 0x1000 + i)
            stub = Agg('AppStub', {0: appid})
            env['apps'].append((appid, stub))
            sock = Agg('Endpoint', {0: ipaddr_of_u32(ex, a), 1: p})
            # reference: refused iff an earlier accepted binding has the same (address, port)
            dup = False
            for (a2, p2, _id2) in binds:
                dup = b_or(dup, b_and(ex.binop('Eq', a, a2, False), ex.binop('Eq', p, p2, False)))
            before = [(clone_val(k), clone_val(v)) for k, v in udp['u'].f[0].items]
            r = ex.call('Udp::listen', [Ref(udp, 'u'), Agg('TypeId', {0: appid}), sock, clone_val(machine)])
            res['obligations'] += 1
            if r.variant == 0:
                okv, m = _valid(ex, b_not(dup))
                if not okv:
                    raise SpecViolation('second-bind-accepted', f'listen #{i} succeeded although the same (address, port) was already bound', m)
                binds.append((a, p, appid))
                log.append(f'listen#{i} ok')
            else:
                okv, m = _valid(ex, dup)
                if not okv:
                    raise SpecViolation('bind-refused-wrongly', f'listen #{i} was refused although its (address, port) was free', m)
                if len(udp['u'].f[0].items) != len(before):
                    raise SpecViolation('refused-bind-changed-table', f'listen #{i} was refused but the binding table changed')
                log.append(f'listen#{i} refused')
        # ---- one datagram
        src, dst = sym_int('src', 32), sym_int('dst', 32)
        sport, dport = sym_int('sport', 16), sym_int('dport', 16)
        payload = [sym_int(f'pl{i}', 8) for i in range(npay)]
        ln = U16(8 + npay)
        hb = [ex.cast(ex.binop('Shr', sport, U16(8), False), 'u8', 'IntToInt'), ex.cast(sport, 'u8', 'IntToInt'),
              ex.cast(ex.binop('Shr', dport, U16(8), False), 'u8', 'IntToInt'), ex.cast(dport, 'u8', 'IntToInt'),
              Int(8, (8 + npay) >> 8), Int(8, (8 + npay) & 0xff), Int(8, 0), Int(8, 0)]
        msg = ex.call('Message::new_inner', [ex.call('Chunk::new', [ListV('Vec', hb + payload)])])
        iph = H.make('ip', U16(28 + npay), U16(0), False, sym_int('ipid', 16), ipaddr_of_u32(ex, src), ipaddr_of_u32(ex, dst), Int(8, 17), sym_int('ttl', 8))
        control = ex.call('Control::new', [])
        ch = {'c': control}
        ex.call('Control::insert::<Ipv4Header>', [Ref(ch, 'c'), clone_val(iph)])
        caller = Agg('Arc', {0: Opaque('ipv4-session')})
        before_tab = len(udp['u'].f[0].items)
        r = ex.call('<Udp as Protocol>::demux', [Ref(udp, 'u'), msg, caller, ch['c'], clone_val(machine)])
        res['obligations'] += 1
        # ---- reference: exact binding wins, then the wildcard 0.0.0.0 with the same port, else nobody
        exact = [(b_and(ex.binop('Eq', a, dst, False), ex.binop('Eq', p, dport, False)), idv) for (a, p, idv) in binds]
        wild = [(b_and(ex.binop('Eq', a, U32(0), False), ex.binop('Eq', p, dport, False)), idv) for (a, p, idv) in binds]
        any_exact = b_or(*[c for c, _ in exact]) if exact else False
        any_wild = b_or(*[c for c, _ in wild]) if wild else False
        dl = env['deliveries']
        if len(dl) > 1:
            raise SpecViolation('delivered-more-than-once', ' ; '.join(log) + ': one datagram was handed to several applications')
        if len(udp['u'].f[0].items) != before_tab:
            raise SpecViolation('demux-changed-bindings', ' ; '.join(log) + ': demux changed the binding table')
        if not dl:
            okv, m = _valid(ex, b_not(b_or(any_exact, any_wild)))
            if not okv:
                raise SpecViolation('dropped-although-bound', ' ; '.join(log) + ': the datagram was dropped although an application is bound to its address and port (or to the wildcard)', m)
            if r.variant == 0:
                raise SpecViolation('no-error-for-unbound', ' ; '.join(log) + ': demux returned Ok although nobody is bound')
            return log + ['datagram for nobody dropped']
        d = dl[0]
        got = d['app'].f[0]
        want = False
        for c, idv in exact:
            want = b_or(want, b_and(c, ex.binop('Eq', got, idv, False)))
        for c, idv in wild:
            want = b_or(want, b_and(b_not(any_exact), c, ex.binop('Eq', got, idv, False)))
        okv, m = _valid(ex, want)
        if not okv:
            raise SpecViolation('delivered-to-wrong-application', ' ; '.join(log) + ': the datagram was delivered to an application that is not the one bound to (dst, port) / not the wildcard fallback', m)
        # payload unchanged, header stripped
        bs = real_msg_bytes(ex, d['message'])
        if len(bs) != npay:
            raise SpecViolation('payload-length', ' ; '.join(log) + f': delivered {len(bs)} bytes, the datagram carried {npay}')
        for i, (x, y) in enumerate(zip(bs, payload)):
            okv, m = _valid(ex, ex.binop('Eq', x, y, False))
            if not okv:
                raise SpecViolation('payload-changed', ' ; '.join(log) + f': payload byte {i} differs', m)
        # true source attached: session endpoints local = (dst, dport), remote = (src, sport)
        sess = d['session'].f[0] if isinstance(d['session'], Agg) and d['session'].ty == 'Arc' else d['session']
        eps = None
        for fv in sess.f.values():
            if isinstance(fv, Agg) and fv.ty == 'Endpoints':
                eps = fv
        if eps is None:
            raise Unsupported('UdpSession without Endpoints field')
        loc, rem = eps.f[0], eps.f[1]
        conds = [ex.binop('Eq', u32_of_ipaddr(ex, loc.f[0]), dst, False), ex.binop('Eq', loc.f[1], dport, False),
                 ex.binop('Eq', u32_of_ipaddr(ex, rem.f[0]), src, False), ex.binop('Eq', rem.f[1], sport, False)]
        okv, m = _valid(ex, b_and(*conds))
        if not okv:
            raise SpecViolation('source-not-attached', ' ; '.join(log) + ': the session handed to the application does not carry (dst,port) as local and the true (src,port) as remote endpoint', m)
        res['obligations'] += 1
        return log + ['datagram delivered']

    def on_end(ex, kind, r):
        res['paths'] += 1
        if kind == 'panic':
            res['violations'].append({'key': f'mirx:udp:panic:{r.msg[:60]}', 'desc': f'panic in {r.site}: {r.msg}', 'values': ex.model_values(), 'unit': res['unit']})
        elif len(res['samples']) < 3:
            s = ' ; '.join(r)
            if s not in res['samples']:
                res['samples'].append(s)

    def wrapped(ex):
        try:
            return body(ex)
        except SpecViolation as v:
            m = v.model if v.model is not None else ex.check_sat()[1]
            vals = {}
            if m is not None:
                for d in m.decls():
                    try:
                        vals[str(d)] = m[d].as_long()
                    except Exception:
                        pass
            res['violations'].append({'key': f'mirx:udp:{v.role}', 'desc': v.desc, 'values': vals, 'unit': res['unit']})
            raise PathEnd()

    ex.explore(wrapped, on_end, deadline=unit.get('deadline'))


def run_malformed_unit(ex, H, unit, res):
    """C14 drop-at-layer: arbitrary bytes presented to Udp::demux / Ipv4::demux; a frame whose header fails to decode reaches no
    application, changes no binding, and the call returns an error instead of panicking"""
    n = unit['nbytes']
    layer = unit['layer']

    def body(ex):
        env = {'protocols': {}, 'apps': [], 'deliveries': []}
        ex.env = env
        machine = Agg('Arc', {0: Opaque('machine')})
        raw = [sym_int(f'raw{i}', 8) for i in range(n)]
        msg = ex.call('Message::new_inner', [ex.call('Chunk::new', [ListV('Vec', list(raw))])])
        control = ex.call('Control::new', [])
        ch = {'c': control}
        caller = Agg('Arc', {0: Opaque('lower-session')})
        if layer == 'udp':
            udp = {'u': ex.call('Udp::new', [])}
            ip = Agg('Ipv4', {0: MapV('DashMap', []), 1: MapV('HashMap', [])})
            env['protocols']['Ipv4'] = ip
            appid = Int(64, 0x1000)
            env['apps'].append((appid, Agg('AppStub', {0: appid})))
            # a wildcard binding on a symbolic port, so that well-formed datagrams would be delivered
            bport = sym_int('bport', 16)
            ex.call('Udp::listen', [Ref(udp, 'u'), Agg('TypeId', {0: appid}), Agg('Endpoint', {0: ipaddr_of_u32(ex, U32(0)), 1: bport}), clone_val(machine)])
            # the IPv4 header in the context may announce any total length (a frame cut short or padded after the IP layer parsed it):
            # what decides is the number of bytes actually handed to UDP
            iptl = sym_int('iptl', 16)
            ex.assume(ex.binop('Ge', iptl, U16(20), False))
            iph = H.make('ip', iptl, U16(0), False, sym_int('ipid', 16), ipaddr_of_u32(ex, sym_int('src', 32)), ipaddr_of_u32(ex, sym_int('dst', 32)), Int(8, 17), sym_int('ttl', 8))
            ex.call('Control::insert::<Ipv4Header>', [Ref(ch, 'c'), clone_val(iph)])
            before = len(udp['u'].f[0].items)
            r = ex.call('<Udp as Protocol>::demux', [Ref(udp, 'u'), msg, caller, ch['c'], clone_val(machine)])
            after = len(udp['u'].f[0].items)
            # reference decoder (RFC 768 + this build: checksum field must be 0 because checksums are compiled out)
            if n >= 8:
                lenf = ex.binop('BitOr', ex.binop('Shl', ex.cast(raw[4], 'u16', 'IntToInt'), U16(8), False), ex.cast(raw[5], 'u16', 'IntToInt'), False)
                wellformed = b_and(ex.binop('Eq', lenf, U16(n), False), ex.binop('Eq', raw[6], Int(8, 0), False), ex.binop('Eq', raw[7], Int(8, 0), False))
            else:
                wellformed = False
        elif layer == 'tcp':
            # no session, no listener: every segment is dropped with an error; a reset may be sent back only for a segment that decodes
            tcp = {'t': Agg('Tcp', {0: MapV('DashMap', []), 1: MapV('DashMap', [])})}
            iph = H.make('ip', U16(20 + n), U16(0), False, sym_int('ipid', 16), ipaddr_of_u32(ex, sym_int('src', 32)), ipaddr_of_u32(ex, sym_int('dst', 32)), Int(8, 6), sym_int('ttl', 8))
            ex.call('Control::insert::<Ipv4Header>', [Ref(ch, 'c'), clone_val(iph)])
            before = 0
            r = ex.call('<Tcp as Protocol>::demux', [Ref(tcp, 't'), msg, caller, ch['c'], clone_val(machine)])
            after = len(tcp['t'].f[0].items) + len(tcp['t'].f[1].items)
            wellformed = ex.binop('Eq', ex.binop('Shr', raw[12], Int(8, 4), False), Int(8, 5), False) if n >= 20 else False
            if env.get('sends'):
                okv, m = _valid(ex, wellformed)
                if not okv:
                    raise SpecViolation('c14:malformed-frame-answered', f'tcp: a segment whose header does not decode was answered with {len(env["sends"])} segment(s)', m)
            if r.variant == 0:
                raise SpecViolation('c14:dropped-frame-without-error', 'tcp: no session and no listener, but demux reported success')
        elif layer == 'arp':
            # a frame that does not decode as an ARP packet must not touch the ARP table (and must not crash); nothing is listening locally
            arp = {'a': Agg('Arp', {0: MapV('DashMap', []), 1: Opaque('arp-table'), 2: none(), 3: none()})}
            before = after = 0
            r = ex.call('<Arp as Protocol>::demux', [Ref(arp, 'a'), msg, caller, ch['c'], clone_val(machine)])
            if n >= 28:
                oper = ex.binop('BitOr', ex.binop('Shl', ex.cast(raw[6], 'u16', 'IntToInt'), U16(8), False), ex.cast(raw[7], 'u16', 'IntToInt'), False)
                wellformed = b_or(ex.binop('Eq', oper, U16(1), False), ex.binop('Eq', oper, U16(2), False))
            else:
                wellformed = False
            if env.get('arp_sets'):
                okv, m = _valid(ex, wellformed)
                if not okv:
                    raise SpecViolation('c14:malformed-frame-changed-arp-table', 'arp: a frame that does not decode as an ARP packet changed the ARP table', m)
            res['obligations'] += 1
            return f'arp: {n} arbitrary bytes -> ' + ('table updated (well-formed)' if env.get('arp_sets') else 'ignored')
        elif layer in ('dhcp-client', 'dhcp-server'):
            # a truncated DHCP message (shorter than the fixed part + two terminators) can never decode: the application-layer demux
            # must report an error, not crash
            who = {'p': Agg('DhcpClient' if layer == 'dhcp-client' else 'DhcpServer', {0: Opaque('field0'), 1: Opaque('field1'), 2: Opaque('field2')})}
            before = after = 0
            r = ex.call('<DhcpClient as Protocol>::demux' if layer == 'dhcp-client' else '<DhcpServer as Protocol>::demux',
                        [Ref(who, 'p'), msg, caller, ch['c'], clone_val(machine)])
            wellformed = False
        else:
            ip = {'i': Agg('Ipv4', {0: MapV('DashMap', []), 1: MapV('HashMap', [])})}
            before = 0
            r = ex.call('<Ipv4 as Protocol>::demux', [Ref(ip, 'i'), msg, caller, ch['c'], clone_val(machine)])
            after = len(ip['i'].f[0].items)
            wellformed = False          # nobody listens: every frame must be dropped with an error, decodable or not
        res['obligations'] += 1
        dl = env['deliveries']
        if after != before:
            raise SpecViolation('c14:malformed-frame-changed-bindings', f'{layer} demux of {n} arbitrary bytes changed the binding table')
        if dl:
            okv, m = _valid(ex, wellformed)
            if not okv:
                raise SpecViolation('c14:malformed-frame-delivered', f'{layer}: a frame whose header does not decode was delivered to an application', m)
        if r.variant == 0 and not dl:
            raise SpecViolation('c14:dropped-frame-without-error', f'{layer}: the frame was dropped but demux reported success')
        return f'{layer}: {n} arbitrary bytes -> ' + ('delivered (well-formed)' if dl else 'dropped with an error') + (f', answered with {len(env["sends"])} segment(s)' if env.get('sends') else '')

    def on_end(ex, kind, r):
        res['paths'] += 1
        if kind == 'panic':
            okk, m = ex.check_sat()
            vals = {}
            if m is not None:
                for d in m.decls():
                    try:
                        vals[str(d)] = m[d].as_long()
                    except Exception:
                        pass
            res['violations'].append({'key': f'mirx:udp:c14:panic-in-demux:{layer}', 'desc': f'{layer} demux of {n} arbitrary bytes panics in {r.site}: {r.msg}', 'values': vals, 'unit': res['unit']})
        elif len(res['samples']) < 3 and r not in res['samples']:
            res['samples'].append(r)

    def wrapped(ex):
        try:
            return body(ex)
        except SpecViolation as v:
            m = v.model if v.model is not None else ex.check_sat()[1]
            vals = {}
            if m is not None:
                for d in m.decls():
                    try:
                        vals[str(d)] = m[d].as_long()
                    except Exception:
                        pass
            res['violations'].append({'key': f'mirx:udp:{v.role}', 'desc': v.desc, 'values': vals, 'unit': res['unit']})
            raise PathEnd()

    ex.explore(wrapped, on_end, deadline=unit.get('deadline'))


def malformed_units(tier):
    us = [{'layer': 'udp', 'nbytes': n} for n in ((0, 7, 8, 10) if tier == 'quick' else (0, 1, 4, 7, 8, 9, 12))]
    us += [{'layer': 'ipv4', 'nbytes': n} for n in ((0, 19, 20, 22) if tier == 'quick' else (0, 1, 10, 19, 20, 21, 24))]
    us += [{'layer': 'tcp', 'nbytes': n} for n in ((0, 19, 20, 23) if tier == 'quick' else (0, 1, 12, 13, 19, 20, 21, 24))]
    us += [{'layer': 'arp', 'nbytes': n} for n in ((0, 27, 28) if tier == 'quick' else (0, 1, 7, 8, 27, 28, 30))]
    us += [{'layer': l, 'nbytes': n} for l in ('dhcp-client', 'dhcp-server') for n in ((0, 31) if tier == 'quick' else (0, 1, 16, 30, 31))]
    return us


def run_open_listen_unit(ex, H, unit, res):
    """C04: `Udp::open_and_listen` is an async fn; its synchronous prefix (everything before the first inner future is polled) is what
    registers the binding.  The coroutine is polled once; execution stops where it polls `open_for_sending`.  Afterwards the binding
    table must hold exactly (endpoints.local -> upstream), or be unchanged with an error if that socket was already bound."""
    from .core import Suspended
    pre = unit['prebound']

    def body(ex):
        env = {'protocols': {}, 'apps': [], 'deliveries': []}
        ex.env = env
        udp = {'u': ex.call('Udp::new', [])}
        ip = ex.call('<Ipv4 as Default>::default', []) if ex.resolve('<Ipv4 as Default>::default') else Agg('Ipv4', {0: MapV('DashMap', []), 1: MapV('HashMap', [])})
        env['protocols']['Ipv4'] = ip
        machine = Agg('Arc', {0: Opaque('machine')})
        la, lp = sym_int('laddr', 32), sym_int('lport', 16)
        ra, rp = sym_int('raddr', 32), sym_int('rport', 16)
        same = False
        if pre:
            pa, pp = sym_int('baddr0', 32), sym_int('bport0', 16)
            r0 = ex.call('Udp::listen', [Ref(udp, 'u'), Agg('TypeId', {0: Int(64, 0x1000)}), Agg('Endpoint', {0: ipaddr_of_u32(ex, pa), 1: pp}), clone_val(machine)])
            same = ex.concretize_bool(b_and(ex.binop('Eq', pa, la, False), ex.binop('Eq', pp, lp, False)))
        eps = Agg('Endpoints', {0: Agg('Endpoint', {0: ipaddr_of_u32(ex, la), 1: lp}), 1: Agg('Endpoint', {0: ipaddr_of_u32(ex, ra), 1: rp})})
        up = Agg('TypeId', {0: Int(64, 0x2000)})
        co = {'c': ex.call('Udp::open_and_listen', [Ref(udp, 'u'), up, eps, clone_val(machine)])}
        body_fn = [f for n, f in ex.fns.items() if n.endswith('open_and_listen::{closure#0}') and 'udp' in n.lower()]
        if len(body_fn) != 1:
            raise Unsupported('coroutine body of Udp::open_and_listen not found')
        outcome = 'returned'
        try:
            r = ex.run(body_fn[0], [Agg('Pin', {0: Ref(co, 'c')}), Ref({'cx': Opaque('task context')}, 'cx')])
        except Suspended as sp:
            outcome = 'suspended at ' + sp.callee[:60]
            r = None
        res['obligations'] += 1
        items = udp['u'].f[0].items
        if same:
            # the socket was taken: refused, table unchanged
            if r is None or len(items) != 1:
                raise SpecViolation('c04:open-and-listen-on-bound-socket', f'open_and_listen on an already bound socket was not refused cleanly ({outcome}, {len(items)} bindings)')
            return 'refused (socket already bound)'
        want = (1 if pre else 0) + 1
        if len(items) != want:
            raise SpecViolation('c04:open-and-listen-binding-count', f'open_and_listen left {len(items)} bindings, expected {want} ({outcome})')
        k, v = items[-1]
        okv, m = _valid(ex, b_and(ex.binop('Eq', u32_of_ipaddr(ex, k.f[0]), la, False), ex.binop('Eq', k.f[1], lp, False), ex.binop('Eq', v.f[0], Int(64, 0x2000), False)))
        if not okv:
            raise SpecViolation('c04:open-and-listen-binds-other-socket', 'open_and_listen registered a binding that is not (endpoints.local -> upstream)', m)
        return f'bound endpoints.local, then {outcome}'

    def on_end(ex, kind, r):
        res['paths'] += 1
        if kind == 'panic':
            res['violations'].append({'key': f'mirx:udp:panic:{r.msg[:60]}', 'desc': f'panic in {r.site}: {r.msg}', 'values': ex.model_values(), 'unit': res['unit']})
        elif len(res['samples']) < 3 and r not in res['samples']:
            res['samples'].append(r)

    def wrapped(ex):
        try:
            return body(ex)
        except SpecViolation as v:
            m = v.model if v.model is not None else ex.check_sat()[1]
            vals = {}
            if m is not None:
                for d in m.decls():
                    try:
                        vals[str(d)] = m[d].as_long()
                    except Exception:
                        pass
            res['violations'].append({'key': f'mirx:udp:{v.role}', 'desc': v.desc, 'values': vals, 'unit': res['unit']})
            raise PathEnd()

    ex.explore(wrapped, on_end, deadline=unit.get('deadline'))


def units(tier):
    us = [{'kind': 'open_and_listen', 'prebound': False}, {'kind': 'open_and_listen', 'prebound': True}]
    for nb in (0, 1, 2, 3):
        for npay in ((0, 2) if tier == 'quick' else (0, 1, 3)):
            us.append({'bindings': nb, 'payload': npay})
    return us


_W = {}


def worker(args):
    unit, budget = args
    if not _W:
        _W['l'] = loader.load()
        _W['H'] = Hdr(_W['l'][2])
    fns, enums, src = _W['l']
    extra = None
    if unit.get('layer') == 'dhcp-server':
        if 's' not in _W:
            _W['s'] = loader.load_shim(['applications/dhcp_server.rs', 'ip_generator.rs'], name='shim-dhcp')
        fns, enums, src, extra = _W['s']
    ex = loader.new_exec(fns, enums, src, message_model=False)
    if extra:
        ex.extra_roots = [extra]
    install_env(ex)
    res = {'unit': dict(unit), 'paths': 0, 'obligations': 0, 'violations': [], 'samples': [], 'unsupported': []}
    t0 = time.time()
    u = dict(unit, deadline=t0 + budget)
    try:
        if 'layer' in unit:
            run_malformed_unit(ex, _W['H'], u, res)
        elif unit.get('kind') == 'open_and_listen':
            run_open_listen_unit(ex, _W['H'], u, res)
        else:
            run_unit(ex, _W['H'], u, res)
    except Unsupported as e:
        res['unsupported'].append(str(e)[:300])
    except Exception as e:
        res['unsupported'].append(f'internal error {e!r}: ' + traceback.format_exc()[-700:])
    res['wall'] = time.time() - t0
    res['stats'] = dict(ex.stats)
    res['encoded'] = sorted(ex.encoded)
    res['models'] = sorted(ex.models_used)
    return res
