"""multi-process driver for the TCB units"""
import multiprocessing as mp, os, sys, time
from . import tcbspecs


def run_units(units, tier='quick', nproc=None, budget=600, fn=None):
    nproc = nproc or min(16, os.cpu_count() or 4)
    fn = fn or tcbspecs.worker_run
    args = [(u, tier, budget) for u in units]
    ctx = mp.get_context('fork')
    tcbspecs.worker_init()          # load once, children inherit
    with ctx.Pool(nproc) as pool:
        out = pool.map(fn, args, chunksize=1)
    return out
