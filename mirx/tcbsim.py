"""Scenario driver for the real TCB MIR: every spec is a sequence of public-API calls starting from
Tcb::open / segment_arrives_listen with symbolic parameters, so every explored state is reachable by
construction.  The same op list is (a) executed symbolically by mirx and (b) rendered as a Rust test that
replays it natively and prints a state digest after each op (translator validation and counterexample replay)."""
import re
import z3
from .core import Int, Agg, Ref, ListV, Opaque, UNIT, Panic, Unsupported, sym_int, mk_bool, b_and, b_or, b_not, clone_val
from .msgmodel import MsgV, msg_of, normalize
from .tcblib import (Fields, TcbView, HdrView, seg_parts, endpoints, ipaddr, header, segment, STATES, FIN, SYN, RST, PSH, ACK, URG)

ADDR = {'A': [10, 0, 0, 1], 'B': [10, 0, 0, 2]}
PORT = {'A': 1000, 'B': 80}
PEER = {'A': 'B', 'B': 'A'}


def stream_byte(src, i):
    """content of byte i of application stream `src` (A, B: the two applications; X: forged traffic)"""
    k = {'A': 7, 'B': 13, 'X': 29}.get(src, 31)
    return (i * k + ord(src[0])) % 251


def fnv(bs):
    h = 0xcbf29ce484222325
    for b in bs:
        h ^= b
        h = (h * 0x100000001b3) & 0xffffffffffffffff
    return h


class Sim:
    def __init__(self, ex, F):
        self.ex = ex
        self.F = F
        self.t = {}            # name -> holder {'t': Tcb value | None}
        self.ops = []          # recorded ops (symbolic args)
        self.emitted = []      # list of (op index, [segments]) for reference by later ops
        self.results = []      # per op: result summary (symbolic)
        self.sent = {'A': Int(64, 0), 'B': Int(64, 0)}       # bytes submitted so far per application
        self.delivered = {'A': [], 'B': []}                  # extents handed to the application at each endpoint
        self.record = False
        self.snaps = []        # per op (when record): {name: cloned Tcb value or None}

    def _snap(self):
        if self.record:
            self.snaps.append({n: (clone_val(h['t']) if h['t'] is not None else None) for n, h in self.t.items()})

    # ---- views
    def view(self, name):
        return TcbView(self.F, self.t[name]['t'])

    def alive(self, name):
        return name in self.t and self.t[name]['t'] is not None

    # ---- ops
    def open(self, name, iss, mtu):
        peer = PEER[name]
        self.ops.append(('open', name, iss, mtu))
        self.results.append(None)
        tcb = self.ex.call('Tcb::open', [endpoints(ADDR[name], PORT[name], ADDR[peer], PORT[peer]), iss, mtu])
        self.t[name] = {'t': tcb}
        self._snap()

    def listen_arrives(self, name, segref, iss, mtu):
        """segment arrives for `name` while it has no TCB (LISTEN). returns 'tcb' | 'response' | 'none'"""
        peer = PEER[name]
        seg = self._seg_value(segref)
        self.ops.append(('listen', name, segref, iss, mtu))
        self.results.append('?')
        r = self.ex.call('segment_arrives_listen', [seg, ipaddr(ADDR[name]), ipaddr(ADDR[peer]), iss, mtu])
        if r.variant == 0:
            self.results[-1] = 'none'
            self._snap()
            return 'none', None
        lr = r.f[0]
        info = self.ex.enum_info['ListenResult']
        if lr.variant == info['Tcb']:
            self.t[name] = {'t': lr.f[0]}
            self.results[-1] = 'tcb'
            self._snap()
            return 'tcb', None
        self.results[-1] = ('response', lr.f[0])
        self._snap()
        return 'response', lr.f[0]

    def closed_arrives(self, name, segref, text_len):
        """segment arrives for `name` in the CLOSED state (no TCB): returns the response header or None"""
        peer = PEER[name]
        seg = self._seg_value(segref)
        hdr = seg.f[self.F.seg['header']]
        self.ops.append(('closed', name, segref, text_len))
        self.results.append('?')
        r = self.ex.call('segment_arrives_closed', [hdr, text_len, ipaddr(ADDR[name]), ipaddr(ADDR[peer])])
        self.results[-1] = 'none' if r.variant == 0 else ('response', r.f[0])
        self._snap()
        return None if r.variant == 0 else r.f[0]

    def arrives(self, name, segref):
        seg = self._seg_value(segref)
        self.ops.append(('arrives', name, segref))
        self.results.append('?')
        r = self.ex.call('Tcb::segment_arrives', [Ref(self.t[name], 't'), seg])
        res = 'Close' if r.variant == self.ex.enum_info['SegmentArrivesResult']['Close'] else 'Ok'
        self.results[-1] = res
        self._snap()
        return res

    def segments(self, name):
        self.ops.append(('segments', name))
        self.results.append('?')
        r = self.ex.call('Tcb::segments', [Ref(self.t[name], 't')])
        self.emitted.append((len(self.ops) - 1, r.items))
        self.results[-1] = list(r.items)
        self._snap()
        return [('emitted', len(self.ops) - 1, i) for i in range(len(r.items))]

    def send(self, name, length):
        """application write of `length` fresh bytes of its stream"""
        off = self.sent[name]
        m = msg_of(name, off, length)
        self.sent[name] = self.ex.binop('Add', off, length, False)
        self.ops.append(('send', name, off, length))
        self.results.append(None)
        self.ex.call('Tcb::send', [Ref(self.t[name], 't'), m])
        self._snap()

    def receive(self, name):
        self.ops.append(('receive', name))
        self.results.append('?')
        m = self.ex.call('Tcb::receive', [Ref(self.t[name], 't')])
        self.delivered[name].extend(m.ext)
        self.results[-1] = m
        self._snap()
        return m

    def close(self, name):
        self.ops.append(('close', name))
        self.results.append('?')
        r = self.ex.call('Tcb::close', [Ref(self.t[name], 't')])
        inv = {v: k for k, v in self.ex.enum_info['CloseResult'].items()}
        self.results[-1] = inv[r.variant]
        self._snap()
        return inv[r.variant]

    def abort(self, name):
        self.ops.append(('abort', name))
        self.results.append(None)
        self.ex.call('Tcb::abort', [Ref(self.t[name], 't')])
        self._snap()

    def advance_time(self, name, nanos):
        self.ops.append(('advance_time', name, nanos))
        self.results.append('?')
        r = self.ex.call('Tcb::advance_time', [Ref(self.t[name], 't'), nanos])
        inv = {v: k for k, v in self.ex.enum_info['AdvanceTimeResult'].items()}
        self.results[-1] = inv[r.variant]
        self._snap()
        return inv[r.variant]

    def drop_tcb(self, name):
        self.ops.append(('drop', name))
        self.results.append(None)
        self.t[name]['t'] = None
        self._snap()

    # ---- segment references
    def seg_of(self, segref):
        """the symbolic Segment value a reference denotes (emitted or forged)"""
        return self._seg_value(segref, clone=False)

    def _seg_value(self, segref, clone=True):
        if segref[0] == 'emitted':
            _, opi, i = segref
            for (k, items) in self.emitted:
                if k == opi:
                    return clone_val(items[i]) if clone else items[i]
            raise KeyError(segref)
        if segref[0] == 'forged':
            _, frm, seq, ack, ctl, wnd, tsrc, toff, tlen = segref
            to = PEER[frm]
            h = header(self.F, Int(16, PORT[frm]), Int(16, PORT[to]), seq, ack, ctl, wnd)
            return segment(self.F, h, msg_of(tsrc, toff, tlen) if not (tlen.conc and tlen.v == 0) else MsgV())
        raise KeyError(segref)

    def forged(self, frm, seq, ack, ctl, wnd, tsrc='X', toff=None, tlen=None):
        return ('forged', frm, seq, ack, ctl, wnd, tsrc, toff if toff is not None else Int(64, 0), tlen if tlen is not None else Int(64, 0))

    # ---- digests (prediction under a model)
    def digest_tcb(self, name, ev):
        """state digest of tcb `name` with all symbols evaluated by ev (Int -> python int)"""
        if not self.alive(name):
            return 'none'
        v = self.view(name)
        F = self.F

        def hd(h):
            hv = HdrView(F, h)
            return f'{ev(hv.seq)}/{ev(hv.ack)}/{ev(hv.ctl)}/{ev(hv.wnd)}'
        retx = []
        for tx in v.retransmit.items:
            sg = tx.f[F.tx['segment']]
            need = tx.f[F.tx['needs_transmit']]
            hv, txt = seg_parts(F, sg)
            retx.append(f'{hd(hv.h)}/{ev(txt.length(self.ex))}/{1 if evb(ev, need) else 0}')
        one = [hd(h) for h in v.oneshot.items]
        heap = sorted(f'{hd(s.f[F.seg["header"]])}/{ev(s.f[F.seg["text"]].length(self.ex))}' for s in v.in_segments.items)
        tw = v.time_wait
        tws = 'None' if tw.variant == 0 else str(ev(tw.f[0]))
        st = v.state
        st = ev(st) if isinstance(st, Int) else st
        return (f'state={STATES[st]} snd={ev(v.snd("una"))},{ev(v.snd("nxt"))},{ev(v.snd("wnd"))},{ev(v.snd("wl1"))},{ev(v.snd("wl2"))},{ev(v.snd("iss"))} '
                f'rcv={ev(v.rcv("irs"))},{ev(v.rcv("nxt"))},{ev(v.rcv("wnd"))} otext={ev(v.out_text.length(self.ex))} '
                f'retx=[{" ".join(retx)}] oneshot=[{" ".join(one)}] itext={msg_digest(v.in_text, ev)} heap=[{" ".join(heap)}] rto={ev(v.rto)} tw={tws}')


def evb(ev, b):
    if isinstance(b, bool):
        return b
    return ev(Int(1, z3.If(b, z3.BitVecVal(1, 1), z3.BitVecVal(0, 1)))) == 1


def msg_bytes(m, ev):
    out = []
    for (src, off, ln) in m.ext:
        o, l = ev(off), ev(ln)
        if isinstance(src, tuple):
            data = [ev(x) for x in src[2]]
            out.extend(data[o:o + l])
        else:
            out.extend(stream_byte(src, o + i) for i in range(l))
    return out


def msg_digest(m, ev):
    bs = msg_bytes(m, ev)
    return f'{len(bs)}:{fnv(bs):016x}'


def model_eval(model):
    def ev(x):
        if isinstance(x, int):
            return x
        if isinstance(x, bool):
            return 1 if x else 0
        if isinstance(x, Int):
            if x.conc:
                return x.v
            return model.eval(x.v, model_completion=True).as_long()
        if z3.is_bool(x):
            return 1 if z3.is_true(model.eval(x, model_completion=True)) else 0
        raise Unsupported('eval of ' + repr(x))
    return ev


# ------------------------------------------------------------------------------ Rust rendering

RUST_PRELUDE = r'''
// generated by /verif/mirx/tcbsim.py - native replay of a mirx scenario against the real Tcb
use super::*;
use crate::protocols::tcp::tcp_parsing::{Control, TcpHeader};
use std::panic::{catch_unwind, AssertUnwindSafe};

fn sbyte(src: u8, i: usize) -> u8 {
    let k: usize = match src { b'A' => 7, b'B' => 13, b'X' => 29, _ => 31 };
    ((i * k + src as usize) % 251) as u8
}
fn stream(src: u8, off: usize, len: usize) -> Message {
    if len == 0 { return Message::default(); }
    Message::new((off..off + len).map(|i| sbyte(src, i)).collect::<Vec<u8>>())
}
fn fnv(m: &Message) -> String {
    let mut h: u64 = 0xcbf29ce484222325;
    let mut n = 0usize;
    for b in m.iter() { h ^= b as u64; h = h.wrapping_mul(0x100000001b3); n += 1; }
    format!("{}:{:016x}", n, h)
}
fn hd(h: &TcpHeader) -> String { format!("{}/{}/{}/{}", h.seq, h.ack, u8::from(h.ctl), h.wnd) }
fn digest(t: &Option<Tcb>) -> String {
    match t {
        None => "none".to_string(),
        Some(t) => {
            let retx: Vec<String> = t.outgoing.retransmit.iter().map(|x| format!("{}/{}/{}", hd(&x.segment.header), x.segment.text.len(), x.needs_transmit as u8)).collect();
            let one: Vec<String> = t.outgoing.oneshot.iter().map(hd).collect();
            let mut heap: Vec<String> = t.incoming.segments.iter().map(|s| format!("{}/{}", hd(&s.header), s.text.len())).collect();
            heap.sort();
            let tw = match t.timeouts.time_wait { None => "None".to_string(), Some(d) => d.as_nanos().to_string() };
            format!("state={:?} snd={},{},{},{},{},{} rcv={},{},{} otext={} retx=[{}] oneshot=[{}] itext={} heap=[{}] rto={} tw={}",
                t.state, t.snd.una, t.snd.nxt, t.snd.wnd, t.snd.wl1, t.snd.wl2, t.snd.iss, t.rcv.irs, t.rcv.nxt, t.rcv.wnd,
                t.outgoing.text.len(), retx.join(" "), one.join(" "), fnv(&t.incoming.text), heap.join(" "),
                t.timeouts.retransmission.as_nanos(), tw)
        }
    }
}
fn forge(sport: u16, dport: u16, seq: u32, ack: u32, ctl: u8, wnd: u16, tsrc: u8, toff: usize, tlen: usize) -> Segment {
    Segment::new(TcpHeader { src_port: sport, dst_port: dport, seq, ack, data_offset: 5, ctl: Control::from(ctl), wnd, urg: 0, checksum: 0 }, stream(tsrc, toff, tlen))
}
fn ep(a: [u8; 4], p: u16) -> Endpoint { Endpoint { address: Ipv4Address::new(a), port: p } }
'''


def render_rust(sim, ev, test_name='mirx_replay', prelude=True):
    """Rust test replaying sim.ops with all symbols evaluated by ev; prints 'OP k <digest>' lines."""
    L = []
    if prelude:
        L.append(RUST_PRELUDE)
    L.append('#[test]\nfn %s() {' % test_name)
    L.append('    println!("\\nREPLAY-BEGIN %s");' % test_name)
    L.append('    let mut a: Option<Tcb> = None; let mut b: Option<Tcb> = None;')
    L.append('    let mut em: Vec<Vec<Segment>> = Vec::new(); let mut emidx: Vec<usize> = Vec::new();')
    L.append('    let _ = (&mut em, &mut emidx);')
    var = {'A': 'a', 'B': 'b'}
    emitted_slot = {}
    for k, op in enumerate(sim.ops):
        kind, name = op[0], op[1]
        v = var[name]
        peer = PEER[name]

        def segexpr(sr):
            if sr[0] == 'emitted':
                return f'em[{emitted_slot[sr[1]]}][{sr[2]}].clone()'
            _, frm, seq, ack, ctl, wnd, tsrc, toff, tlen = sr
            to = PEER[frm]
            return f"forge({PORT[frm]}, {PORT[to]}, {ev(seq)}, {ev(ack)}, {ev(ctl)}, {ev(wnd)}, b'{tsrc}', {ev(toff)}, {ev(tlen)})"
        if kind == 'open':
            body = (f'{v} = Some(Tcb::open(Endpoints {{ local: ep({ADDR[name]}, {PORT[name]}), remote: ep({ADDR[peer]}, {PORT[peer]}) }}, {ev(op[2])}, {ev(op[3])})); '
                    f'String::new()')
        elif kind == 'listen':
            body = (f'match segment_arrives_listen({segexpr(op[2])}, Ipv4Address::new({ADDR[name]}), Ipv4Address::new({ADDR[peer]}), {ev(op[3])}, {ev(op[4])}) {{ '
                    f'None => "none".to_string(), Some(ListenResult::Tcb(t)) => {{ {v} = Some(t); "tcb".to_string() }}, '
                    f'Some(ListenResult::Response(h)) => format!("response {{}}", hd(&h)) }}')
        elif kind == 'closed':
            body = (f'match segment_arrives_closed({segexpr(op[2])}.header, {ev(op[3])}, Ipv4Address::new({ADDR[name]}), Ipv4Address::new({ADDR[peer]})) {{ '
                    f'None => "none".to_string(), Some(h) => format!("response {{}}", hd(&h)) }}')
        elif kind == 'arrives':
            body = f'format!("{{:?}}", {v}.as_mut().unwrap().segment_arrives({segexpr(op[2])}))'
        elif kind == 'segments':
            emitted_slot[k] = len(emitted_slot)
            body = (f'let s = {v}.as_mut().unwrap().segments(); let d: Vec<String> = s.iter().map(|x| format!("{{}}/{{}}", hd(&x.header), fnv(&x.text))).collect(); '
                    f'em.push(s); d.join(" ")')
        elif kind == 'send':
            body = f"{v}.as_mut().unwrap().send(stream(b'{name}', {ev(op[2])}, {ev(op[3])})); String::new()"
        elif kind == 'receive':
            body = f'fnv(&{v}.as_mut().unwrap().receive())'
        elif kind == 'close':
            body = f'format!("{{:?}}", {v}.as_mut().unwrap().close())'
        elif kind == 'abort':
            body = f'{v}.as_mut().unwrap().abort(); String::new()'
        elif kind == 'advance_time':
            body = f'format!("{{:?}}", {v}.as_mut().unwrap().advance_time(std::time::Duration::from_nanos({ev(op[2])})))'
        elif kind == 'drop':
            body = f'{v} = None; String::new()'
        else:
            raise Unsupported('render op ' + kind)
        L.append(f'    match catch_unwind(AssertUnwindSafe(|| {{ {body} }})) {{')
        L.append(f'        Ok(r) => println!("OP {k} {kind} {name} r=[{{}}] A: {{}} | B: {{}}", r, digest(&a), digest(&b)),')
        L.append(f'        Err(_) => {{ println!("OP {k} {kind} {name} PANIC"); if "{kind}" == "segments" {{ em.push(Vec::new()); }} }}')
        L.append('    }')
    L.append('}')
    return '\n'.join(L)


def predict_lines(sim, ev):
    """the lines the native replay must print, computed from the recorded symbolic snapshots under ev"""
    F = sim.F
    out = []
    for k, op in enumerate(sim.ops):
        if k >= len(sim.snaps):
            out.append(f'OP {k} {op[0]} {op[1]} PANIC')
            break
        kind, name = op[0], op[1]
        res = sim.results[k]
        if kind in ('open', 'send', 'abort', 'drop'):
            r = ''
        elif kind in ('listen', 'closed'):
            r = res if isinstance(res, str) else 'response ' + _hd(F, res[1], ev)
        elif kind == 'segments':
            r = ' '.join(_hd(F, sg.f[F.seg['header']], ev) + '/' + msg_digest(sg.f[F.seg['text']], ev) for sg in res)
        elif kind == 'receive':
            r = msg_digest(res, ev)
        else:
            r = res
        snap = sim.snaps[k]
        tmp = Sim(sim.ex, F)
        tmp.t = {n: {'t': v} for n, v in snap.items()}
        da = tmp.digest_tcb('A', ev) if 'A' in tmp.t else 'none'
        db = tmp.digest_tcb('B', ev) if 'B' in tmp.t else 'none'
        out.append(f'OP {k} {kind} {name} r=[{r}] A: {da} | B: {db}')
    return out


def _hd(F, h, ev):
    hv = HdrView(F, h)
    return f'{ev(hv.seq)}/{ev(hv.ack)}/{ev(hv.ctl)}/{ev(hv.wnd)}'
