"""Provenance model of elvis_core::Message for specs that do not look at payload bytes:
a message is a sequence of extents (source label, offset, length).  cut / slice / concatenate /
remove_front / header / len split and join extents exactly like the real chunk arithmetic does on
byte windows.  The faithfulness of the real Message w.r.t. plain byte sequences is what C07 decides
on the real Message MIR; this model is the 'plain byte sequence' side."""
import z3
from .core import Int, Agg, Ref, ListV, Opaque, UNIT, Panic, Unsupported, mk_int, b_and, b_not, some, none


class MsgV:
    __slots__ = ('ext',)

    def __init__(self, ext=None):
        self.ext = list(ext or [])      # [(src, off Int64, len Int64)]

    def mirx_clone(self):
        return MsgV(self.ext)

    def mirx_default(self):
        return MsgV()

    def length(self, ex):
        tot = Int(64, 0)
        for (_, _, l) in self.ext:
            tot = ex.binop('Add', tot, l, False)
        return tot

    def __repr__(self):
        return 'Msg[' + ', '.join(f'{s}@{o.v}+{l.v}' for s, o, l in self.ext) + ']'


def msg_of(src, off, length):
    off = off if isinstance(off, Int) else Int(64, off)
    length = length if isinstance(length, Int) else Int(64, length)
    return MsgV([(src, off, length)])


def _split_front(ex, m, n, what):
    """remove the first n bytes of m (in place); returns the removed extents.  Panics like the real assert!(len <= self.len)."""
    tot = m.length(ex)
    if not ex.concretize_bool(ex.binop('Le', n, tot, False)):
        raise Panic(f'assertion failed: len <= self.len ({what})', 'Message::' + what)
    head = []
    rest = list(m.ext)
    to_remove = n
    while rest:
        s, o, l = rest[0]
        if ex.concretize_bool(ex.binop('Le', l, to_remove, False)):
            to_remove = ex.binop('Sub', to_remove, l, False)
            head.append(rest.pop(0))
            continue
        if ex.concretize_bool(ex.binop('Gt', to_remove, Int(64, 0), False)):
            head.append((s, o, to_remove))
        rest[0] = (s, ex.binop('Add', o, to_remove, False), ex.binop('Sub', l, to_remove, False))
        break
    m.ext = rest
    return [e for e in head if not (e[2].conc and e[2].v == 0)]


def install(ex):
    M = ex.model

    @M(r'^Message::len$')
    def message_len(ex, c, a):
        return a[0].get().length(ex)

    @M(r'^Message::is_empty$')
    def message_is_empty(ex, c, a):
        return ex.binop('Eq', a[0].get().length(ex), Int(64, 0), False)

    @M(r'^<Message as Default>::default$')
    def message_default(ex, c, a):
        return MsgV()

    @M(r'^<Message as Clone>::clone$')
    def message_clone(ex, c, a):
        return a[0].get().mirx_clone()

    @M(r'^Message::iter$|^Message::to_vec$')
    def message_iter(ex, c, a):
        return Opaque('message-bytes')

    @M(r'^Message::concatenate$')
    def message_concatenate(ex, c, a):
        m = a[0].get()
        m.ext = m.ext + [e for e in a[1].ext if not (e[2].conc and e[2].v == 0)]
        return UNIT

    @M(r'^Message::cut$')
    def message_cut(ex, c, a):
        m = a[0].get()
        return MsgV(_split_front(ex, m, a[1], 'cut'))

    @M(r'^Message::remove_front$')
    def message_remove_front(ex, c, a):
        _split_front(ex, a[0].get(), a[1], 'remove_front')
        return UNIT

    @M(r'^Message::slice::<')
    def message_slice(ex, c, a):
        m = a[0].get()
        r = a[1]
        kind = c.split('slice::<')[1]
        tot = m.length(ex)
        if kind.startswith('std::ops::Range<usize>') or kind.startswith('Range<usize>'):
            s, e = r.f[0], r.f[1]
            ln = ex.binop('Sub', e, s, False) if ex.concretize_bool(ex.binop('Le', s, e, False)) else Int(64, 0)
        elif 'RangeFrom' in kind:
            s = r.f[0]
            ln = None
        elif 'RangeTo<' in kind:
            s = Int(64, 0)
            ln = r.f[0]
        elif 'RangeFull' in kind:
            s = Int(64, 0)
            ln = None
        else:
            raise Unsupported('Message::slice range kind ' + kind)
        sum_ = ex.binop('AddWithOverflow', s, ln if ln is not None else Int(64, 0), False)
        if ex.concretize_bool(sum_.f[1]):
            raise Panic('attempt to add with overflow', 'Message::slice_inner')
        if not ex.concretize_bool(ex.binop('Le', sum_.f[0], tot, False)):
            raise Panic('assertion failed: start + len.unwrap_or(0) <= self.len()', 'Message::slice_inner')
        _split_front(ex, m, s, 'slice')
        if ln is not None:
            keep = MsgV(m.ext)
            m.ext = _split_front(ex, keep, ln, 'slice')
        return UNIT

    @M(r'^Message::header::<')
    def message_header(ex, c, a):
        m = a[0].get()
        h = a[1]
        if isinstance(h, ListV):
            ex.hdr_n = getattr(ex, 'hdr_n', 0) + 1
            m.ext = [(('hdr', ex.hdr_n, tuple(h.items)), Int(64, 0), Int(64, len(h.items)))] + m.ext
            return UNIT
        raise Unsupported('Message::header of ' + repr(h)[:40])

    @M(r'^Message::new::<')
    def message_new(ex, c, a):
        h = a[0]
        if isinstance(h, ListV):
            ex.hdr_n = getattr(ex, 'hdr_n', 0) + 1
            return MsgV([(('bytes', ex.hdr_n, tuple(h.items)), Int(64, 0), Int(64, len(h.items)))])
        raise Unsupported('Message::new of ' + repr(h)[:40])


def normalize(ex, m):
    """merge adjacent extents of the same source that are contiguous under the current path condition"""
    out = []
    for (s, o, l) in m.ext:
        if l.conc and l.v == 0:
            continue
        if out and out[-1][0] == s:
            ps, po, pl = out[-1]
            end = ex.binop('Add', po, pl, False)
            eq = ex.binop('Eq', end, o, False)
            if eq is True or (eq is not False and not ex.check_sat(b_not(eq))[0]):
                out[-1] = (s, po, ex.binop('Add', pl, l, False))
                continue
        out.append((s, o, l))
    return out
