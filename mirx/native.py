"""Run generated Rust tests natively against a scratch copy of /repo (overlay with a cfg(test) child module)."""
import os, re, shutil, subprocess, time

VERIF = os.path.dirname(os.path.dirname(os.path.abspath(__file__)))
REPO = os.environ.get('VERIF_REPO', '/repo')
CACHE = os.path.join(VERIF, '.cache')


import contextlib, fcntl


@contextlib.contextmanager
def target_lock(name):
    """The cargo target directories under .cache are shared by every check.  Cargo's own lock covers the build only, and the name of a test
    binary does not depend on the absolute path of the scratch copy it was built from, so two checks running at the same time could
    execute each other's test binary.  Build + run therefore happen under one advisory lock per target directory."""
    os.makedirs(CACHE, exist_ok=True)
    fd = os.open(os.path.join(CACHE, name + '.lock'), os.O_CREAT | os.O_RDWR, 0o644)
    try:
        fcntl.flock(fd, fcntl.LOCK_EX)
        yield
    finally:
        try:
            fcntl.flock(fd, fcntl.LOCK_UN)
        finally:
            os.close(fd)


def touch_tree(root):
    """cargo decides freshness by comparing source mtimes (paths relative to the package root) with the previous build in the shared target
    directory; a scratch copy prepared while another check was still building would look older than that build and cargo would run
    the other check's binary.  Called under the target lock, right before cargo."""
    now = time.time()
    for dp, dn, fn in os.walk(root):
        if 'target' in dn:
            dn.remove('target')
        for f in fn:
            if f.endswith('.rs') or f == 'Cargo.toml':
                try:
                    os.utime(os.path.join(dp, f), (now, now))
                except OSError:
                    pass


def run_tests(rust_src, append_to='src/protocols/tcp/tcb.rs', crate='elvis-core', test_filter='mirx_replay', release=False, timeout=900,
              modname='mirx_replay_mod', extra_appends=None):
    """returns (stdout, returncode).  rust_src becomes a child module of the file `append_to` in a scratch copy."""
    scratch = os.path.join(os.environ.get('VERIF_SCRATCH', '/tmp/elvis-verif'), f'native-{os.getpid()}-{int(time.time() * 1000) % 100000}')
    shutil.rmtree(scratch, ignore_errors=True)
    os.makedirs(scratch)
    try:
        dst = os.path.join(scratch, crate)
        shutil.copytree(os.path.join(REPO, 'sim', crate), dst, ignore=shutil.ignore_patterns('target'))
        shutil.copy(os.path.join(REPO, 'sim', 'Cargo.lock'), os.path.join(dst, 'Cargo.lock'))
        with open(os.path.join(dst, 'Cargo.toml'), 'a') as f:
            f.write('\n[workspace]\n')
        mpath = os.path.join(dst, 'src', modname + '.rs')
        with open(mpath, 'w') as f:
            f.write(rust_src)
        with open(os.path.join(dst, append_to), 'a') as f:
            f.write(f'\n#[cfg(test)] #[path = "{mpath}"] mod {modname};\n')
        for rel, (name, src) in (extra_appends or {}).items():
            ep = os.path.join(dst, 'src', name + '.rs')
            with open(ep, 'w') as f:
                f.write(src)
            with open(os.path.join(dst, rel), 'a') as f:
                f.write(f'\n#[cfg(test)] #[path = "{ep}"] pub(crate) mod {name};\n')
        env = dict(os.environ)
        env['CARGO_NET_OFFLINE'] = 'true'
        env['CARGO_TARGET_DIR'] = os.path.join(CACHE, 'native-target')
        env['RUSTFLAGS'] = env.get('RUSTFLAGS', '') + ' -Awarnings'
        cmd = ['cargo', 'test', '--offline', '--lib']
        if release:
            cmd.append('--release')
        cmd += [test_filter, '--', '--nocapture', '--test-threads', '1']
        with target_lock('native-target'):
            touch_tree(dst)
            p = subprocess.run(['timeout', '-k', '10', str(timeout)] + cmd, cwd=dst, env=env, capture_output=True, text=True)
        return p.stdout + '\n' + p.stderr, p.returncode
    finally:
        shutil.rmtree(scratch, ignore_errors=True)


def op_lines(out):
    """'OP k ...' lines of a replay run (the first one shares its line with the test harness banner)"""
    res = []
    for l in out.split('\n'):
        m = re.search(r'(OP \d+ .*)$', l)
        if m:
            res.append(m.group(1).rstrip())
    return res


def split_replays(out):
    """{test name: [OP lines]} from a batched run"""
    res = {}
    cur = None
    for l in out.split('\n'):
        m = re.search(r'REPLAY-BEGIN (\w+)', l)
        if m:
            cur = m.group(1)
            res[cur] = []
            continue
        m = re.search(r'(OP \d+ .*)$', l)
        if m and cur is not None:
            res[cur].append(m.group(1).rstrip())
    return res


def run_shim_tests(rust_src, module='ip_generator.rs', test_filter='mirx_replay', timeout=1200, modname='mirx_replay_mod', extra_modules=()):
    """like run_tests but for a file of the `elvis` crate compiled through the shim crate (see loader.load_shim)"""
    scratch = os.path.join(os.environ.get('VERIF_SCRATCH', '/tmp/elvis-verif'), f'native-shim-{os.getpid()}-{int(time.time() * 1000) % 100000}')
    shutil.rmtree(scratch, ignore_errors=True)
    os.makedirs(scratch)
    try:
        core_dst = os.path.join(scratch, 'elvis-core')
        shutil.copytree(os.path.join(REPO, 'sim', 'elvis-core'), core_dst, ignore=shutil.ignore_patterns('target'))
        d = os.path.join(scratch, 'shim')
        os.makedirs(os.path.join(d, 'src'))
        with open(os.path.join(d, 'Cargo.toml'), 'w') as f:
            f.write('[package]\nname = "shim"\nversion = "0.0.0"\nedition = "2021"\n\n[dependencies]\nelvis-core = { path = "../elvis-core" }\n'
                    'tokio = { version = "1.23.0", features = ["rt", "rt-multi-thread", "time", "macros", "signal", "sync"] }\nasync-trait = "0.1.68"\ntracing = "0.1.37"\n\n[workspace]\n')
        base = os.path.basename(module)
        dst = os.path.join(d, 'src', base)
        shutil.copy(os.path.join(REPO, 'sim', 'elvis', 'src', module), dst)
        mpath = os.path.join(d, 'src', modname + '.rs')
        with open(mpath, 'w') as f:
            f.write(rust_src)
        with open(dst, 'a') as f:
            f.write(f'\n#[cfg(test)] #[path = "{mpath}"] mod {modname};\n')
        with open(os.path.join(d, 'src', 'lib.rs'), 'w') as f:
            f.write(f'#![allow(unused, dead_code)]\npub mod {os.path.splitext(base)[0]};\n')
            for em in extra_modules:
                eb = os.path.basename(em)
                shutil.copy(os.path.join(REPO, 'sim', 'elvis', 'src', em), os.path.join(d, 'src', eb))
                f.write(f'pub mod {os.path.splitext(eb)[0]};\n')
        shutil.copy(os.path.join(REPO, 'sim', 'Cargo.lock'), os.path.join(d, 'Cargo.lock'))
        env = dict(os.environ)
        env['CARGO_NET_OFFLINE'] = 'true'
        env['CARGO_TARGET_DIR'] = os.path.join(CACHE, 'native-target')
        env['RUSTFLAGS'] = env.get('RUSTFLAGS', '') + ' -Awarnings'
        cmd = ['cargo', 'test', '--offline', '--lib', test_filter, '--', '--nocapture', '--test-threads', '1']
        with target_lock('native-target'):
            touch_tree(scratch)
            p = subprocess.run(['timeout', '-k', '10', str(timeout)] + cmd, cwd=d, env=env, capture_output=True, text=True)
        return p.stdout + '\n' + p.stderr, p.returncode
    finally:
        shutil.rmtree(scratch, ignore_errors=True)
