"""Closed-system specs: two real TCBs (MIR) connected by a faulty network.  Initial sequence numbers and write sizes are
symbolic; the fault schedule (per emitted segment: deliver / drop / duplicate / delay behind the rest of the round) and timer
expirations are enumerated by the executor's choice points, bounded by a fault budget.  Obligations (C01): what each
application has been handed is at every moment a prefix of what the peer application submitted (provenance extents), and
after the faults stop everything is delivered exactly once, acknowledged, and both endpoints fall silent within a bounded
number of retransmission timeouts.  C03 (closed system): sequence-number agreement when synchronised, data before FIN,
release by the final ACK or the 2*MSL timer."""
import os, re, time, traceback
import z3
from .core import Int, Agg, Ref, ListV, Panic, Unsupported, PathEnd, sym_int, mk_bool, b_and, b_or, b_not, clone_val
from .tcbsim import Sim, PEER, model_eval, predict_lines, render_rust, STATES, FIN, SYN, RST, ACK, normalize, seg_parts
from .msgmodel import MsgV
from . import tcbspecs
from .tcbspecs import P, U32, U64, UnitResult, mk_violation, _valid, _short

RTO_NS = 150_000_000          # > RETRANSMISSION_TIMEOUT (100 ms)
SYNCED = {'Established', 'FinWait1', 'FinWait2', 'CloseWait', 'Closing', 'LastAck', 'TimeWait'}


class Net:
    def __init__(self, faults):
        self.faults_left = faults
        self.log = []


def deliver(sim, p, to, sr):
    """hand one segment to endpoint `to` (LISTEN if it has no TCB yet and is the passive side)"""
    if to not in sim.t:
        if to == 'B':
            sim.listen_arrives('B', sr, p.issB, p.mtu)
        return
    if not sim.alive(to):
        return                              # TCB already released: segment is dropped by the (absent) connection
    r = sim.arrives(to, sr)
    if r == 'Close':
        sim.closed_by_segment.add(to)
        sim.drop_tcb(to)
    elif to in getattr(sim, 'eager', ()):
        sim.receive(to)


def round_trip(ex, sim, p, net, order=('A', 'B'), faulty=True):
    """each endpoint emits; every emitted segment gets a fate; returns number of segments emitted"""
    emitted = 0
    for frm in order:
        if not sim.alive(frm):
            continue
        to = PEER[frm]
        srs = sim.segments(frm)
        emitted += len(srs)
        later = []
        for sr in srs:
            fate = 'deliver'
            if faulty and net.faults_left > 0:
                fate = ex.choose(['deliver', 'drop', 'dup', 'delay'])
                if fate != 'deliver':
                    net.faults_left -= 1
                    net.log.append((frm, fate))
            if fate == 'deliver':
                deliver(sim, p, to, sr)
            elif fate == 'dup':
                deliver(sim, p, to, sr)
                later.append(sr)
            elif fate == 'delay':
                later.append(sr)
        for sr in later:
            deliver(sim, p, to, sr)
    return emitted


def timers(sim, ns=RTO_NS):
    for name in ('A', 'B'):
        if sim.alive(name):
            r = sim.advance_time(name, U64(ns))
            if r == 'CloseConnection':
                sim.closed_by_timer.add(name)
                sim.drop_tcb(name)


def delivered_ext(ex, sim, name):
    ext = list(sim.delivered[name])
    if sim.alive(name):
        ext += sim.view(name).in_text.ext
    return normalize(ex, MsgV(ext))


def check_prefix(ex, sim, res, unit, when):
    """C01 safety: data handed (or ready to be handed) to each application is a prefix of the peer's submitted stream"""
    for name in ('A', 'B'):
        peer = PEER[name]
        if name not in sim.t:
            continue
        res.obligations += 1
        ext = delivered_ext(ex, sim, name)
        if not ext:
            continue
        bad = None
        if len(ext) > 1:
            bad = f'{name} was handed {len(ext)} non-contiguous pieces: {[(e[0], str(e[1].v), str(e[2].v)) for e in ext][:4]}'
        else:
            src, off, ln = ext[0]
            if src != peer:
                bad = f'{name} was handed bytes that {peer} never submitted (source {src})'
            else:
                okv, m = _valid(ex, b_and(ex.binop('Eq', off, U64(0), False), ex.binop('Le', ln, sim.sent[peer], False)))
                if not okv:
                    bad = f'{name} was handed a range of {peer}\'s stream that is not a prefix'
        if bad:
            res.violations.append(mk_violation(ex, sim, unit, f'c01:not-a-prefix:{when}', bad, 'c01'))
            return False
    return True


def check_sync(ex, sim, res, unit, when):
    """C03: when both sides are synchronised, each side's RCV.NXT lies between the peer's SND.UNA and SND.NXT"""
    if not (sim.alive('A') and sim.alive('B')):
        return True
    va, vb = sim.view('A'), sim.view('B')
    if va.state_name not in SYNCED or vb.state_name not in SYNCED:
        return True
    for x, y, nx, ny in ((va, vb, 'A', 'B'), (vb, va, 'B', 'A')):
        res.obligations += 1
        # y.SND.UNA <= x.RCV.NXT <= y.SND.NXT  (mod 2^32, distances are small)
        d1 = ex.binop('Sub', x.rcv('nxt'), y.snd('una'), False)
        d2 = ex.binop('Sub', y.snd('nxt'), x.rcv('nxt'), False)
        okv, m = _valid(ex, b_and(ex.binop('Lt', d1, U32(1 << 31), False), ex.binop('Lt', d2, U32(1 << 31), False)))
        if not okv:
            res.violations.append(mk_violation(ex, sim, unit, f'c03:sequence-disagreement:{when}',
                                               f'{nx}.RCV.NXT is outside [{ny}.SND.UNA, {ny}.SND.NXT] while both are synchronised ({x.state_name}/{y.state_name})', 'c03', model=m))
            return False
    return True


def quiescent(ex, sim):
    for name in ('A', 'B'):
        if not sim.alive(name):
            continue
        v = sim.view(name)
        if v.retransmit.items or v.oneshot.items:
            return False
        if not (ex.binop('Eq', v.out_text.length(ex), U64(0), False) is True):
            return False
    return True


# ------------------------------------------------------------------------------ scenarios

def scen_transfer(ex, F, unit, res):
    """handshake, then writes in one or both directions, faults anywhere (handshake included), fair continuation"""
    holder = unit['_holder']
    sim = Sim(ex, F)
    holder['sim'] = sim
    sim.record = True
    sim.closed_by_segment, sim.closed_by_timer = set(), set()
    sim.info = {'pre': {'state': 'n/a'}, 'flags': set(), 'stage': unit['variant']}
    mtu = Int(16, unit.get('mtu', 1500))
    p = P(ex, mtu=mtu)
    sim.info['p'] = p
    net = Net(unit['faults'])
    mss = mtu.v - 50
    variant = unit['variant']
    nA = p.data_len(ex, 'nA', hi=unit.get('max_write', 2 * mss))
    nB = p.data_len(ex, 'nB', hi=mss) if variant in ('both', 'early_both') else None
    sim.open('A', p.issA, p.mtu)
    if variant in ('early', 'early_both'):
        sim.send('A', nA)                      # write accepted in SYN-SENT
    wrote_b = False
    wrote_a = variant in ('early', 'early_both')
    rounds = 0
    max_rounds = unit.get('rounds', 14)
    silent = 0
    while rounds < max_rounds:
        rounds += 1
        n = round_trip(ex, sim, p, net)
        # application writes as soon as the state accepts them
        if not wrote_a and sim.alive('A') and sim.view('A').state_name == 'Established':
            sim.send('A', nA)
            wrote_a = True
            n += 1
        if nB is not None and not wrote_b and sim.alive('B') and sim.view('B').state_name in (('SynReceived', 'Established') if variant == 'early_both' else ('Established',)):
            sim.send('B', nB)
            wrote_b = True
            n += 1
        # eager reader on B, lazy reader on A (reads only at the end)
        if sim.alive('B'):
            sim.receive('B')
        if not check_prefix(ex, sim, res, unit, f'round'):
            return sim
        if not check_sync(ex, sim, res, unit, f'round'):
            return sim
        if n == 0:
            if quiescent(ex, sim) and wrote_a and (nB is None or wrote_b):
                break
            silent += 1
            timers(sim)
        if sim.closed_by_segment:
            res.violations.append(mk_violation(ex, sim, unit, 'c01:connection-reset-during-transfer',
                                               f'endpoint(s) {sorted(sim.closed_by_segment)} deleted their TCB during a transfer without any close', 'c01'))
            return sim
    # ---- liveness within the bound: everything delivered exactly once, acknowledged, silent
    if sim.alive('A'):
        sim.receive('A')
    res.obligations += 1
    if rounds >= max_rounds:
        res.violations.append(mk_violation(ex, sim, unit, 'c01:not-quiescent-within-bound',
                                           f'after {max_rounds} rounds (faults exhausted, timers firing) the endpoints are still transmitting or hold unacknowledged data', 'c01'))
        return sim
    for name in ('A', 'B'):
        peer = PEER[name]
        ext = normalize(ex, MsgV(sim.delivered[name]))
        want = sim.sent[peer]
        total = U64(0)
        for e in ext:
            total = ex.binop('Add', total, e[2], False)
        okv, m = _valid(ex, ex.binop('Eq', total, want, False))
        if not okv or len(ext) > 1:
            res.violations.append(mk_violation(ex, sim, unit, 'c01:not-everything-delivered',
                                               f'when the endpoints fell silent {name} had not received exactly the bytes {peer} submitted', 'c01', model=m))
            return sim
        if sim.alive(name):
            v = sim.view(name)
            okv, m = _valid(ex, ex.binop('Eq', v.snd('una'), v.snd('nxt'), False))
            if not okv:
                res.violations.append(mk_violation(ex, sim, unit, 'c01:unacknowledged-at-silence', f'{name} fell silent with SND.UNA != SND.NXT', 'c01', model=m))
                return sim
    check_prefix(ex, sim, res, unit, 'end')
    return sim


def scen_close(ex, F, unit, res):
    """handshake, optional data, closes issued by either/both sides at chosen points, faults, fair continuation: data before FIN,
    both TCBs released by the final ACK or the 2*MSL timer, never by RST"""
    holder = unit['_holder']
    sim = Sim(ex, F)
    holder['sim'] = sim
    sim.record = True
    sim.closed_by_segment, sim.closed_by_timer = set(), set()
    sim.info = {'pre': {'state': 'n/a'}, 'flags': set(), 'stage': unit['variant']}
    mtu = Int(16, 1500)
    p = P(ex, mtu=mtu)
    sim.info['p'] = p
    net = Net(unit['faults'])
    mss = 1450
    variant = unit['variant']       # 'a_first' | 'b_first' | 'simultaneous' | 'a_only_then_b_late'
    nA = p.data_len(ex, 'nA', hi=mss) if unit.get('data', True) else None
    tcpspecs_handshake(ex, sim, p, net)
    if not (sim.alive('A') and sim.alive('B')):
        return sim
    sim.eager = ('A', 'B')              # both applications read after every arriving segment
    if nA is not None:
        sim.send('A', nA)
        if unit.get('flush', True):
            # the data is segmentised (in flight / on the retransmission queue) before any close is issued
            for sr in sim.segments('A'):
                fate = 'deliver'
                if net.faults_left > 0:
                    fate = ex.choose(['hold', 'drop', 'deliver'])
                    if fate != 'deliver':
                        net.faults_left -= 1
                if fate == 'deliver':
                    deliver(sim, p, 'B', sr)
                elif fate == 'hold':
                    sim.held = getattr(sim, 'held', []) + [sr]
    closed = {'A': False, 'B': False}
    fin_seen_at = {}

    def do_close(name):
        if sim.alive(name) and not closed[name]:
            sim.close(name)
            closed[name] = True
    if variant in ('a_first', 'simultaneous'):
        do_close('A')               # data still queued (not even segmentised) when the close is issued
    if variant in ('b_first', 'simultaneous'):
        do_close('B')
    rounds = 0
    max_rounds = unit.get('rounds', 16)
    while rounds < max_rounds:
        rounds += 1
        n = round_trip(ex, sim, p, net)
        for sr in getattr(sim, 'held', []):
            deliver(sim, p, 'B', sr)            # a data segment that was delayed behind the FIN
        sim.held = []
        for name in ('A', 'B'):
            if sim.alive(name):
                st = sim.view(name).state_name
                # the peer's application sees end-of-stream when the state shows the FIN; everything submitted before the
                # close must already be deliverable
                if st in ('CloseWait', 'LastAck', 'Closing', 'TimeWait') and name not in fin_seen_at:
                    fin_seen_at[name] = rounds
                    peer = PEER[name]
                    res.obligations += 1
                    sim.receive(name)
                    ext = normalize(ex, MsgV(sim.delivered[name]))
                    total = U64(0)
                    for e in ext:
                        total = ex.binop('Add', total, e[2], False)
                    okv, m = _valid(ex, ex.binop('Eq', total, sim.sent[peer], False))
                    if not okv or len(ext) > 1:
                        # why is data missing?  (i) the closing side never segmentised it, (ii) it sits in the receiver's buffer but
                        # receive() refuses to hand it over in this state, (iii) the FIN really overtook data
                        why = 'fin-overtook-data'
                        if sim.alive(peer) and _valid(ex, ex.binop('Gt', sim.view(peer).out_text.length(ex), U64(0), False))[0]:
                            why = 'close-strands-queued-data'
                        elif _valid(ex, ex.binop('Gt', sim.view(name).in_text.length(ex), U64(0), False))[0]:
                            why = 'receive-refuses-buffered-data'
                        res.violations.append(mk_violation(ex, sim, unit, f'c03:fin-before-data:{why}:{st}',
                                                           f'{name} saw the end of the stream (state {st}) before all data submitted before the close had been delivered ({why})', 'c03', model=m))
                        return sim
                # passive closer answers with its own close once it has seen the FIN
                if st == 'CloseWait' and variant in ('a_first', 'b_first'):
                    do_close(name)
        if not check_prefix(ex, sim, res, unit, 'round'):
            return sim
        if not check_sync(ex, sim, res, unit, 'round'):
            return sim
        if sim.closed_by_segment - {'B' if True else ''} and False:
            pass
        if not sim.alive('A') and not sim.alive('B'):
            break
        if n == 0:
            # nothing on the wire: fire timers (retransmission; TIME-WAIT expiry needs 2*MSL = 2 s)
            tw = any(sim.alive(x) and sim.view(x).state_name == 'TimeWait' for x in ('A', 'B'))
            others_quiet = all((not sim.alive(x)) or sim.view(x).state_name == 'TimeWait' or not sim.view(x).retransmit.items for x in ('A', 'B'))
            timers(sim, 2_100_000_000 if (tw and others_quiet) else RTO_NS)
    res.obligations += 1
    if sim.alive('A') or sim.alive('B'):
        states = {x: (sim.view(x).state_name if sim.alive(x) else 'released') for x in ('A', 'B')}
        res.violations.append(mk_violation(ex, sim, unit, 'c03:lingering-after-close',
                                           f'after closes and {max_rounds} fair rounds the endpoints are not both released: {states}', 'c03'))
        return sim
    # released by the final ACK (LAST-ACK) or by the 2*MSL wait, never by a reset: deletion by segment is legal only from LAST-ACK
    for name in sim.closed_by_segment:
        res.obligations += 1
        # find the state just before the deleting arrives op
        last_state = None
        for k, op in enumerate(sim.ops):
            if op[0] == 'drop' and op[1] == name:
                prev = sim.snaps[k - 2].get(name) if k >= 2 else None
                if prev is not None:
                    from .tcblib import TcbView
                    last_state = TcbView(F, prev).state_name
        if last_state not in ('LastAck',):
            res.violations.append(mk_violation(ex, sim, unit, f'c03:released-by-reset:{last_state}',
                                               f'{name} was deleted by an arriving segment in state {last_state} (only LAST-ACK may be released by a segment; otherwise 2*MSL)', 'c03'))
            return sim
    return sim


def tcpspecs_handshake(ex, sim, p, net):
    sim.open('A', p.issA, p.mtu)
    for _ in range(6):
        n = round_trip(ex, sim, p, net)
        if sim.alive('A') and sim.alive('B') and sim.view('A').state_name == 'Established' and sim.view('B').state_name == 'Established' and n == 0:
            return
        if n == 0:
            timers(sim)


SCENARIOS = {'transfer': scen_transfer, 'close': scen_close}


def closed_units(tier):
    units = []
    f = 1 if tier == 'quick' else 2
    for variant in ('plain', 'early', 'both', 'early_both'):
        units.append({'kind': 'transfer', 'variant': variant, 'faults': f})
    units.append({'kind': 'transfer', 'variant': 'plain', 'faults': 0, 'mtu': 100, 'max_write': 150})
    units.append({'kind': 'transfer', 'variant': 'both', 'faults': 1, 'mtu': 100, 'max_write': 100})
    for variant in ('a_first', 'b_first', 'simultaneous'):
        units.append({'kind': 'close', 'variant': variant, 'faults': f, 'data': True, 'flush': True})
        units.append({'kind': 'close', 'variant': variant, 'faults': 0, 'data': True, 'flush': False})
    return units


def split_unit(unit, nsplit):
    """partition a unit's fault schedule by the position of its first fault so that workers share the load"""
    return [dict(unit, first_choice=i) for i in range(nsplit)]


def worker_run_closed(args):
    unit, tier, budget = args
    if not tcbspecs._W:
        tcbspecs.worker_init()
    res = UnitResult(unit)
    t0 = time.time()
    ex = tcbspecs.new_exec()
    F = tcbspecs._W['F']
    holder = {}
    u = dict(unit)
    u['_holder'] = holder
    u.setdefault('situation', unit['kind'] + '/' + unit['variant'])
    u.setdefault('target', '-')
    fn = SCENARIOS[unit['kind']]

    def body(ex):
        return fn(ex, F, u, res)

    def on_end(ex, kind, r):
        res.paths += 1
        sim = holder.get('sim')
        if kind == 'panic' and sim is not None:
            res.violations.append(mk_violation(ex, sim, u, f'panic:{re.sub(r"<impl at [^>]*>", "Tcb", r.site).split("::")[-1]}:{_short(r.msg)}:closed-system',
                                               f'panic in {r.site}: {r.msg}', 'panic'))
            return
        if kind == 'ok' and sim is not None and len(res.validation) < 1 and (res.paths % 11 == 1):
            okk, m = ex.check_sat()
            ev = model_eval(m)
            res.validation.append({'rust': render_rust(sim, ev, '@@NAME@@', prelude=False), 'predicted': predict_lines(sim, ev)})
            if len(res.samples) < 2:
                res.samples.append({'scenario': u['situation'], 'faults': [f'{a}:{b}' for a, b in getattr(sim, 'net_log', [])],
                                    'issA': ev(sim.info['p'].issA), 'issB': ev(sim.info['p'].issB), 'ops': len(sim.ops)})
    try:
        ex.explore(body, on_end, deadline=t0 + budget)
    except Unsupported as e:
        res.unsupported.append(f'{unit}: {e}')
    except Exception as e:
        res.unsupported.append(f'{unit}: internal error {e!r}: ' + traceback.format_exc()[-600:])
    res.wall = time.time() - t0
    res.stats = dict(ex.stats)
    res.encoded = sorted(ex.encoded)
    res.models = sorted(ex.models_used)
    for v in res.violations:
        v['unit'] = {k: x for k, x in v['unit'].items() if not k.startswith('_')}
    res.unit = {k: x for k, x in unit.items() if not k.startswith('_')}
    return res
