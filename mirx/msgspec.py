"""C07: the real Message / Chunk / SliceRange MIR against plain byte sequences.

A pool of three real messages with different chunk structure (two chunks; a window strictly inside a shared buffer; empty
chunks) undergoes a sequence of operations chosen by the executor's choice points with symbolic operands; after every
operation every pool member is compared with a reference pool of plain Python lists: len(), to_vec()/iter(), equality,
and independence of the members not operated on.  Byte values are symbolic throughout; chunk windows and operands are
symbolic integers whose feasible cases are separated by the solver."""
import os, re, time, traceback
import z3
from .core import Int, Agg, Ref, ListV, IterV, Panic, Unsupported, PathEnd, sym_int, mk_bool, b_and, b_or, b_not, clone_val, UNIT
from . import loader
from .models import iter_next_val, deref

U64 = lambda v: Int(64, v)

OPS = ['cut', 'remove_front', 'slice_range', 'slice_from', 'slice_to', 'slice_incl', 'slice_to_incl', 'slice_full', 'header', 'concat_other',
       'concat_self_clone', 'clone_replace']


class Pool:
    def __init__(self, ex):
        self.ex = ex
        self.real = []      # holders {'m': Message Agg}
        self.ref = []       # python lists of Int(8)
        self.bn = 0

    def fresh_bytes(self, n):
        out = []
        for _ in range(n):
            out.append(sym_int(f'b{self.bn}', 8))
            self.bn += 1
        return out

    def new_msg(self, data):
        ex = self.ex
        ch = ex.call('Chunk::new', [ListV('Vec', list(data))])
        m = ex.call('Message::new_inner', [ch])
        return m


def build_pool(ex):
    p = Pool(ex)
    # M0: header(2) + body(3): two chunks
    b = p.fresh_bytes(3)
    h = p.fresh_bytes(2)
    m0 = p.new_msg(b)
    hold = {'m': m0}
    ex.call('Message::header_inner', [Ref(hold, 'm'), ex.call('Chunk::new', [ListV('Vec', list(h))])])
    p.real.append(hold)
    p.ref.append(list(h) + list(b))
    # M1: window strictly inside a 4-byte buffer (bytes 1..3), followed by an empty chunk and a 1-byte chunk
    d = p.fresh_bytes(4)
    m1 = p.new_msg(d)
    hold1 = {'m': m1}
    sr = Agg('SliceRange', {0: U64(1), 1: Agg('Option', {0: U64(2)}, 1)})
    ex.call('Message::slice_inner', [Ref(hold1, 'm'), sr])
    e = p.new_msg([])
    ex.call('Message::concatenate', [Ref(hold1, 'm'), e])
    t = p.fresh_bytes(1)
    ex.call('Message::concatenate', [Ref(hold1, 'm'), p.new_msg(t)])
    p.real.append(hold1)
    p.ref.append([d[1], d[2]] + list(t))
    # M2: a clone of M0 cut after the first byte (shares both buffers with M0)
    hold2 = {'m': ex.call('<Message as Clone>::clone', [Ref(hold, 'm')])}
    ex.call('Message::cut', [Ref(hold2, 'm'), U64(1)])
    p.real.append(hold2)
    p.ref.append((list(h) + list(b))[1:])
    return p


def real_len(ex, hold):
    return ex.call('Message::len', [Ref(hold, 'm')])


def real_bytes(ex, hold):
    """the bytes the real iter() yields (forks on symbolic chunk windows)"""
    it = ex.call('Message::iter', [Ref(hold, 'm')])
    out = []
    while True:
        nx = iter_next_val(ex, it)
        if nx.variant == 0:
            return out
        out.append(deref(nx.f[0]))
        if len(out) > 64:
            raise Unsupported('message longer than the bound')


def conc(ex, n, hi):
    return n.v if n.conc else ex.concretize_int(n, list(range(hi + 1)), 'operand')


def mk_range(kind, a, b=None):
    if kind == 'Range':
        return Agg('Range', {0: a, 1: b})
    if kind == 'RangeFrom':
        return Agg('RangeFrom', {0: a})
    if kind == 'RangeTo':
        return Agg('RangeTo', {0: a})
    if kind == 'RangeInclusive':
        return Agg('RangeInclusive', {0: a, 1: b, 2: False})
    if kind == 'RangeToInclusive':
        return Agg('RangeToInclusive', {0: a})
    return Agg('RangeFull', {})


class SpecViolation(Exception):
    def __init__(self, role, desc, model=None):
        self.role, self.desc, self.model = role, desc, model


def apply_op(ex, p, op, tgt, step):
    """apply `op` to pool member tgt on both sides.  returns ('ok'|'panic-expected', description)"""
    hold = p.real[tgt]
    ref = p.ref[tgt]
    L = len(ref)
    a = sym_int(f'a{step}', 64)
    b = sym_int(f'c{step}', 64)
    ex.assume(ex.binop('Le', a, U64(L + 2), False))
    ex.assume(ex.binop('Le', b, U64(L + 2), False))
    desc = op

    def guarded(fn, valid_cond):
        """run fn(); it must panic exactly when valid_cond is false"""
        try:
            r = fn()
        except Panic as pn:
            okv, m = _valid(ex, b_not(valid_cond))
            if not okv:
                raise SpecViolation(f'panic-on-valid-argument:{op}', f'{op} panicked ({pn.msg}) although its arguments satisfy the documented precondition', m)
            return 'panic'
        okv, m = _valid(ex, valid_cond)
        if not okv:
            raise SpecViolation(f'no-panic-on-invalid-argument:{op}', f'{op} returned normally although its arguments violate the precondition', m)
        return r

    if op == 'cut':
        r = guarded(lambda: ex.call('Message::cut', [Ref(hold, 'm'), a]), ex.binop('Le', a, U64(L), False))
        if r == 'panic':
            return 'panic'
        n = conc(ex, a, L)
        head = {'m': r}
        p.extra = (head, ref[:n])
        p.ref[tgt] = ref[n:]
        desc = f'cut({n})'
    elif op == 'remove_front':
        r = guarded(lambda: ex.call('Message::remove_front', [Ref(hold, 'm'), a]), ex.binop('Le', a, U64(L), False))
        if r == 'panic':
            return 'panic'
        n = conc(ex, a, L)
        p.ref[tgt] = ref[n:]
        desc = f'remove_front({n})'
    elif op.startswith('slice'):
        kind = {'slice_range': 'Range', 'slice_from': 'RangeFrom', 'slice_to': 'RangeTo', 'slice_incl': 'RangeInclusive',
                'slice_to_incl': 'RangeToInclusive', 'slice_full': 'RangeFull'}[op]
        # reference semantics on plain vectors: v[range] must be a valid range of v
        if kind == 'Range':
            valid = b_or(b_and(ex.binop('Le', a, b, False), ex.binop('Le', b, U64(L), False)),
                         b_and(ex.binop('Gt', a, b, False), ex.binop('Le', a, U64(L), False)))     # start > end: empty (Range::len saturates), start must still be in range
            rng = mk_range(kind, a, b)
        elif kind == 'RangeFrom':
            valid = ex.binop('Le', a, U64(L), False)
            rng = mk_range(kind, a)
        elif kind == 'RangeTo':
            valid = ex.binop('Le', a, U64(L), False)
            rng = mk_range(kind, a)
        elif kind == 'RangeInclusive':
            ex.assume(ex.binop('Le', a, ex.binop('Add', b, U64(1), False), False))    # a..=b with a <= b+1 (std requires start <= end + 1 to be meaningful)
            valid = ex.binop('Lt', b, U64(L), False)
            rng = mk_range(kind, a, b)
        elif kind == 'RangeToInclusive':
            valid = ex.binop('Lt', a, U64(L), False)
            rng = mk_range(kind, a)
        else:
            valid = True
            rng = mk_range(kind, None)
        frm = {'Range': 'std::ops::Range<usize>', 'RangeFrom': 'RangeFrom<usize>', 'RangeTo': 'RangeTo<usize>', 'RangeInclusive': 'RangeInclusive<usize>',
               'RangeToInclusive': 'RangeToInclusive<usize>', 'RangeFull': 'RangeFull'}[kind]

        def do():
            sr = ex.call(f'<SliceRange as From<{frm}>>::from', [rng])
            return ex.call('Message::slice_inner', [Ref(hold, 'm'), sr])
        r = guarded(do, valid)
        if r == 'panic':
            return 'panic'
        if kind == 'Range':
            s_, e_ = conc(ex, a, L + 2), conc(ex, b, L + 2)
            p.ref[tgt] = ref[s_:e_] if s_ <= e_ else []
            desc = f'slice({s_}..{e_})'
        elif kind == 'RangeFrom':
            s_ = conc(ex, a, L)
            p.ref[tgt] = ref[s_:]
            desc = f'slice({s_}..)'
        elif kind == 'RangeTo':
            e_ = conc(ex, a, L)
            p.ref[tgt] = ref[:e_]
            desc = f'slice(..{e_})'
        elif kind == 'RangeInclusive':
            s_, e_ = conc(ex, a, L + 2), conc(ex, b, L + 2)
            p.ref[tgt] = ref[s_:e_ + 1]
            desc = f'slice({s_}..={e_})'
        elif kind == 'RangeToInclusive':
            e_ = conc(ex, a, L)
            p.ref[tgt] = ref[:e_ + 1]
            desc = f'slice(..={e_})'
        else:
            desc = 'slice(..)'
    elif op == 'header':
        k = ex.choose([0, 1, 2])
        hb = p.fresh_bytes(k)
        ex.call('Message::header_inner', [Ref(hold, 'm'), ex.call('Chunk::new', [ListV('Vec', list(hb))])])
        p.ref[tgt] = list(hb) + ref
        desc = f'header({k} bytes)'
    elif op == 'concat_other':
        o = (tgt + 1) % 3
        oc = ex.call('<Message as Clone>::clone', [Ref(p.real[o], 'm')])
        ex.call('Message::concatenate', [Ref(hold, 'm'), oc])
        p.ref[tgt] = ref + list(p.ref[o])
        desc = f'concatenate(clone of M{o})'
    elif op == 'concat_self_clone':
        oc = ex.call('<Message as Clone>::clone', [Ref(hold, 'm')])
        ex.call('Message::concatenate', [Ref(hold, 'm'), oc])
        p.ref[tgt] = ref + list(ref)
        desc = 'concatenate(clone of itself)'
    elif op == 'clone_replace':
        o = (tgt + 2) % 3
        p.real[o] = {'m': ex.call('<Message as Clone>::clone', [Ref(hold, 'm')])}
        p.ref[o] = list(ref)
        desc = f'M{o} = clone'
    else:
        raise Unsupported('op ' + op)
    return desc


def _valid(ex, cond):
    cond = mk_bool(cond)
    if cond is True:
        return True, None
    if cond is False:
        return False, ex.check_sat()[1]
    sat, m = ex.check_sat(z3.Not(cond))
    return (not sat), m


def compare_pool(ex, p, res, when):
    items = list(zip(p.real, p.ref, [f'M{i}' for i in range(len(p.real))]))
    if getattr(p, 'extra', None) is not None:
        items.append((p.extra[0], p.extra[1], 'cut-off part'))
    for hold, ref, nm in items:
        res['obligations'] += 1
        ln = real_len(ex, hold)
        okv, m = _valid(ex, ex.binop('Eq', ln, U64(len(ref)), False))
        if not okv:
            raise SpecViolation('len-differs', f'{when}: len() of {nm} differs from the byte-vector result ({len(ref)})', m)
        bs = real_bytes(ex, hold)
        if len(bs) != len(ref):
            raise SpecViolation('iter-count-differs', f'{when}: iter() of {nm} yields {len(bs)} bytes, the byte-vector result has {len(ref)}', ex.check_sat()[1])
        for i, (x, y) in enumerate(zip(bs, ref)):
            okv, m = _valid(ex, ex.binop('Eq', x, y, False))
            if not okv:
                raise SpecViolation('content-differs', f'{when}: byte {i} of {nm} differs from the byte-vector result', m)
        # conversion to a vector: the real to_vec() against the same reference
        tv = ex.call('Message::to_vec', [Ref(hold, 'm')])
        if len(tv.items) != len(ref):
            raise SpecViolation('to-vec-differs', f'{when}: to_vec() of {nm} has {len(tv.items)} bytes, the byte-vector result has {len(ref)}', ex.check_sat()[1])
        for i, (x, y) in enumerate(zip(tv.items, ref)):
            okv, m = _valid(ex, ex.binop('Eq', x, y, False))
            if not okv:
                raise SpecViolation('to-vec-differs', f'{when}: byte {i} of to_vec() of {nm} differs from the byte-vector result', m)
        # cached length == sum of chunk windows (representation invariant observable through len/iter agreement): covered above
    # equality agrees with byte-vector equality (checked for one pair per comparison round)
    res['obligations'] += 1
    h0, h1 = p.real[0], p.real[1]
    eq = ex.call('<Message as PartialEq>::eq', [Ref(h0, 'm'), Ref(h1, 'm')])
    r0, r1 = p.ref[0], p.ref[1]
    ref_eq = b_and(*[ex.binop('Eq', x, y, False) for x, y in zip(r0, r1)]) if len(r0) == len(r1) else False
    same = b_or(b_and(eq, ref_eq), b_and(b_not(eq), b_not(ref_eq)))
    okv, m = _valid(ex, same)
    if not okv:
        raise SpecViolation('eq-differs', f'{when}: M0 == M1 disagrees with equality of the byte vectors', m)


def run_unit(ex, unit, res):
    first_ops = unit['first_ops']
    depth = unit['depth']

    def body(ex):
        p = build_pool(ex)
        p.extra = None
        compare_pool(ex, p, res, 'initial pool')
        trace = []
        for step in range(depth):
            op = ex.choose(first_ops if step == 0 else (unit['second_ops'] if step == 1 and 'second_ops' in unit else unit.get('later_ops', OPS)))
            tgt = ex.choose(unit.get('first_targets', [0, 1, 2])) if step == 0 else ex.choose([0, 1])
            p.extra = None
            d = apply_op(ex, p, op, tgt, step)
            trace.append(f'M{tgt}.{d}')
            if d == 'panic':
                trace[-1] = f'M{tgt}.{op}(out of range) -> panic as required'
                break
            compare_pool(ex, p, res, ' ; '.join(trace))
        return trace

    def on_end(ex, kind, r):
        res['paths'] += 1
        if kind == 'panic':
            res['violations'].append({'key': f'mirx:message:panic-outside-operation:{_short(r.msg)}', 'desc': f'panic in {r.site}: {r.msg}', 'trace': None, 'values': {}})
            return
        if len(res['samples']) < 3:
            res['samples'].append(' ; '.join(r))

    def wrapped(ex):
        try:
            return body(ex)
        except SpecViolation as v:
            vals = {}
            if v.model is not None:
                for d in v.model.decls():
                    vals[str(d)] = v.model[d].as_long() if hasattr(v.model[d], 'as_long') else str(v.model[d])
            res['violations'].append({'key': f'mirx:message:{v.role}', 'desc': v.desc, 'values': vals})
            raise PathEnd()

    ex.explore(wrapped, on_end, deadline=unit.get('deadline'))


def _short(msg):
    return re.sub(r'\s+', ' ', re.sub(r'[^A-Za-z0-9_ .()+\-*<>=!]', '', msg)).strip()[:70]


_W = {}


def worker(args):
    unit, budget = args
    if not _W:
        fns, enums, src = loader.load()
        _W['l'] = (fns, enums, src)
    fns, enums, src = _W['l']
    ex = loader.new_exec(fns, enums, src, message_model=False)
    res = {'unit': {k: v for k, v in unit.items()}, 'paths': 0, 'obligations': 0, 'violations': [], 'samples': [], 'unsupported': []}
    t0 = time.time()
    unit = dict(unit, deadline=t0 + budget)
    try:
        run_unit(ex, unit, res)
    except Unsupported as e:
        res['unsupported'].append(str(e)[:300])
    except Exception as e:
        res['unsupported'].append(f'internal error {e!r}: ' + traceback.format_exc()[-500:])
    res['wall'] = time.time() - t0
    res['stats'] = dict(ex.stats)
    res['encoded'] = sorted(ex.encoded)
    res['models'] = sorted(ex.models_used)
    return res


CORE_OPS = ['cut', 'remove_front', 'slice_range', 'header', 'concat_other']


def units(tier):
    us = [{'first_ops': [op], 'first_targets': [t], 'depth': 2} for op in OPS for t in (0, 1, 2)]
    if tier != 'quick':
        # depth 3 over the operations that restructure chunks
        us += [{'first_ops': [op], 'first_targets': [t], 'depth': 3, 'second_ops': [op2], 'later_ops': CORE_OPS} for op in CORE_OPS for t in (0, 1) for op2 in CORE_OPS]
    return us
