"""C16 (one hop, function level): the real MIR of ArpRouter::demux (through the shim crate), IpTable, Ipv4Header::serialize /
Ipv4HeaderBuilder::build and the real Message.  The machine (Arp lookup) and tokio::spawn are modelled: spawn records the
future's captured variables (the next hop to resolve, slot and the message to be sent); the coroutine body of that forwarding task
is then run on its own with the outcome of `Arp::resolve(..).await` chosen by the model (resolved to a symbolic MAC / failed) and
`Pci::open` / `PciSession::send_pci` recording what would be put on the wire."""
import re, time, traceback
import z3
from .core import Suspended, Int, Agg, Ref, ListV, MapV, Opaque, Panic, Unsupported, PathEnd, sym_int, mk_bool, b_and, b_or, b_not, b_ite_int, clone_val, UNIT, some, none
from . import loader
from .models import deref
from .reasmspec import Hdr, _valid, SpecViolation
from .ipspec import ipaddr_of_u32, u32_of_ipaddr, ref_mask, alive_entries
from . import udpspec

U8 = lambda v: Int(8, v)
U16 = lambda v: Int(16, v)
U32 = lambda v: Int(32, v)


def install_env(ex):
    udpspec.install_env(ex)
    M = ex.model

    @M(r'^tokio::spawn::<')
    def tokio_spawn(ex, c, a):
        ex.env['spawned'].append(a[0])
        return Opaque('JoinHandle')

    @M(r'^Pci::open$')
    def pci_open(ex, c, a):
        return Agg('Arc', {0: Agg('PciSessionStub', {0: a[1]})})

    @M(r'^PciSession::send_pci$|^pci_session::PciSession::send_pci$')
    def pci_send(ex, c, a):
        ex.env.setdefault('pci_sends', []).append({'slot': deref(a[0]).f[0], 'message': a[1], 'mac': a[2], 'receiver': a[3]})
        return Agg('Result', {0: UNIT}, 0)


def run_unit(ex, H, unit, res):
    nroutes = unit['routes']
    npay = unit['payload']

    def body(ex):
        ex.env = {'protocols': {'Arp': Opaque('arp')}, 'apps': [], 'deliveries': [], 'spawned': []}
        table = {'t': ex.call('IpTable::<T>::new', [])}
        hist = []
        local_ips = [sym_int('lip0', 32), sym_int('lip1', 32)]
        for i in range(nroutes):
            addr = sym_int(f'raddr{i}', 32)
            n = sym_int(f'rlen{i}', 32)
            ex.assume(ex.binop('Le', n, U32(32), False))
            net = ex.call('subnetting::Ipv4Net::new', [ipaddr_of_u32(ex, addr), ex.call('subnetting::Ipv4Mask::from_bitcount', [n])])
            gw = sym_int(f'gw{i}', 32)
            has_gw = unit['gateways'][i]
            slot = Int(32, unit['slots'][i])
            val = Agg('tuple', {0: (some(ipaddr_of_u32(ex, gw)) if has_gw else none()), 1: slot})
            ex.call('IpTable::<T>::add', [Ref(table, 't'), net, val])
            rid = ex.binop('BitAnd', addr, ref_mask(ex, n), False)
            hist.append(('add', rid, n, (gw if has_gw else None, unit['slots'][i])))
        router = {'r': Agg('ArpRouter', {0: table['t'], 1: ListV('Vec', [ipaddr_of_u32(ex, x) for x in local_ips])})}
        # the datagram
        src, dst = sym_int('src', 32), sym_int('dst', 32)
        ttl = sym_int('ttl', 8)
        ident, proto, tos = sym_int('ident', 16), sym_int('proto', 8), sym_int('tos', 8)
        ex.assume(ex.binop('Eq', ex.binop('BitAnd', tos, U8(3), False), U8(0), False))
        frag = sym_int('frag', 16)
        ex.assume(ex.binop('Le', frag, U16(0x1fff), False))
        flags = sym_int('flags', 8)
        ex.assume(ex.binop('Le', flags, U8(3), False))
        iph = H.make('ip', U16(20 + npay), frag, False, ident, ipaddr_of_u32(ex, src), ipaddr_of_u32(ex, dst), proto, ttl)
        iph.f[H.idx['flags']] = Agg('ControlFlags', {0: flags})
        iph.f[H.idx['type_of_service']] = Agg('TypeOfService', {0: tos})
        payload = [sym_int(f'pl{i}', 8) for i in range(npay)]
        msg = ex.call('Message::new_inner', [ex.call('Chunk::new', [ListV('Vec', list(payload))])])
        control = ex.call('Control::new', [])
        ch = {'c': control}
        ex.call('Control::insert::<Ipv4Header>', [Ref(ch, 'c'), clone_val(iph)])
        r = ex.call('<ArpRouter as Protocol>::demux', [Ref(router, 'r'), msg, Agg('Arc', {0: Opaque('caller')}), ch['c'], Agg('Arc', {0: Opaque('machine')})])
        sp = ex.env['spawned']
        res['obligations'] += 1
        if len(sp) > 1:
            raise SpecViolation('forwarded-more-than-once', 'one datagram produced several forwards')
        # reference route: longest-prefix match over the routes
        alive = alive_entries(ex, hist)
        cands = []
        for (rid, n, v, al) in alive:
            contains = ex.binop('Eq', ex.binop('BitAnd', dst, ref_mask(ex, n), False), rid, False)
            cands.append((b_and(al, contains), n, v))
        any_route = b_or(*[c for c, _, _ in cands]) if cands else False
        ttl_dead = ex.binop('Le', ttl, U8(1), False)
        if not sp:
            # allowed only when the TTL is exhausted or no route exists
            okv, m = _valid(ex, b_or(ttl_dead, b_not(any_route)))
            if not okv:
                raise SpecViolation('dropped-although-routable', 'a datagram with TTL >= 2 and a matching route was not forwarded', m)
            if r.variant == 0:
                okv, m = _valid(ex, ttl_dead)
                if not okv:
                    raise SpecViolation('no-error-without-route', 'demux returned Ok without forwarding although the TTL was not exhausted', m)
            return 'dropped (TTL exhausted or no route)'
        okv, m = _valid(ex, b_and(b_not(ttl_dead), any_route))
        if not okv:
            raise SpecViolation('forwarded-dead-or-unroutable', 'a datagram whose TTL is 0 or 1, or for which no route exists, was forwarded', m)
        fut = sp[0]
        names = fut.ty.split('|')[1].split(',')
        cap = {nm: fut.f[i] for i, nm in enumerate(names)}
        ap = cap['address_pair']
        nh_local, nh_remote = u32_of_ipaddr(ex, ap.f[0]), u32_of_ipaddr(ex, ap.f[1])
        slot = cap['slot']
        okc = False
        for i, (c, n, v) in enumerate(cands):
            best = b_and(c, *[b_or(b_not(c2), ex.binop('Le', n2, n, False)) for j, (c2, n2, v2) in enumerate(cands) if j != i])
            gw, sl = v
            want_remote = gw if gw is not None else dst
            okc = b_or(okc, b_and(best, ex.binop('Eq', nh_remote, want_remote, False), ex.binop('Eq', slot, Int(32, sl), False),
                                  ex.binop('Eq', nh_local, local_ips[sl], False)))
        okv, m = _valid(ex, okc)
        if not okv:
            raise SpecViolation('wrong-next-hop', 'the forward does not go to the gateway (or the destination itself for a direct route) of the most specific matching route on that route\'s interface', m)
        # the forwarded packet: header re-encoded with TTL - 1 and nothing else changed, payload unchanged
        bs = udpspec.real_msg_bytes(ex, cap['message'])
        res['obligations'] += 1
        if len(bs) != 20 + npay:
            raise SpecViolation('forwarded-length', f'the forwarded packet has {len(bs)} bytes instead of {20 + npay}')
        fl = ex.binop('BitOr', ex.binop('Shl', ex.cast(flags, 'u16', 'IntToInt'), U16(13), False), frag, False)
        hi = lambda x: ex.cast(ex.binop('Shr', x, Int(x.w, 8), False), 'u8', 'IntToInt')
        lo = lambda x: ex.cast(x, 'u8', 'IntToInt')
        a4 = lambda x: [ex.cast(ex.binop('Shr', x, U32(s_), False), 'u8', 'IntToInt') for s_ in (24, 16, 8, 0)]
        tl = U16(20 + npay)
        want = [U8(0x45), tos, hi(tl), lo(tl), hi(ident), lo(ident), hi(fl), lo(fl), ex.binop('Sub', ttl, U8(1), False), proto, U8(0), U8(0)] + a4(src) + a4(dst) + payload
        for i, (x, y) in enumerate(zip(bs, want)):
            okv, m = _valid(ex, ex.binop('Eq', x, y, False))
            if not okv:
                what = 'time-to-live is not decremented by exactly one' if i == 8 else (f'header byte {i} changed' if i < 20 else f'payload byte {i - 20} changed')
                raise SpecViolation('forwarded-packet-altered:' + ('ttl' if i == 8 else ('header' if i < 20 else 'payload')), 'the forwarded packet differs from the received one: ' + what, m)
        # ---- the forwarding task itself: its coroutine body is run with the outcome of the ARP resolution chosen by the model
        body_fn = [ex.coroutine_body(fut)]
        if body_fn[0] is None:
            raise Unsupported('coroutine body of the forwarding task not found')
        outcome = ex.choose(['arp-resolved', 'arp-failed'])
        mac = sym_int('resolved_mac', 64)

        def poll_hook(ex, c, a):
            if 'Arp::resolve' not in c:
                return None
            res_v = Agg('Result', {0: mac}, 0) if outcome == 'arp-resolved' else Agg('Result', {0: Agg('NoResponseError', {})}, 1)
            return Agg('Poll', {0: res_v}, 0)
        ex.env['poll_hook'] = poll_hook
        ex.env['protocols']['Pci'] = Opaque('pci')
        ex.env['pci_sends'] = []
        fh = {'f': fut}
        try:
            ex.run(body_fn[0], [Agg('Pin', {0: Ref(fh, 'f')}), Ref({'cx': Opaque('task context')}, 'cx')])
        except Suspended as sp_:
            raise Unsupported('forwarding task suspended at ' + sp_.callee[:80])
        sends = ex.env['pci_sends']
        res['obligations'] += 1
        if outcome == 'arp-failed':
            if sends:
                # witness for the simulation-level replay: prefer ordinary unicast addresses that are pairwise different (any model of the path
                # condition is a counterexample; an unnatural one - destination equal to one of the router's own addresses, 0.0.0.0 ... - only
                # makes the replay topology meaningless)
                specials = [U32(0), U32(0xffffffff), U32(0x7f000001)]
                addrs = [dst, src, nh_remote] + list(local_ips)
                nat = [b_not(ex.binop('Eq', a_, sp_v, False)) for a_ in addrs for sp_v in specials]
                nat += [b_not(ex.binop('Eq', dst, x, False)) for x in local_ips] + [b_not(ex.binop('Eq', nh_remote, x, False)) for x in local_ips]
                nat += [b_not(ex.binop('Eq', local_ips[0], local_ips[1], False)), b_not(ex.binop('Eq', src, dst, False)), ex.binop('Ge', ttl, U8(3), False)]
                sat_, m_ = ex.check_sat(b_and(*nat))
                raise SpecViolation('task:sent-although-next-hop-unresolved', 'the next hop could not be resolved but the datagram was put on the wire anyway (a frame without a resolved destination is a broadcast)', m_ if sat_ else None)
            return 'forwarding task: next hop unresolved, dropped'
        if len(sends) != 1:
            raise SpecViolation('task:not-sent-exactly-once', f'the next hop was resolved but the forwarding task sent {len(sends)} frames')
        sd = sends[0]
        okv, m = _valid(ex, ex.binop('Eq', sd['slot'], slot, False))
        if not okv:
            raise SpecViolation('task:sent-on-other-interface', 'the forwarding task sends on another interface than the one the route names', m)
        if sd['mac'].variant != 1:
            raise SpecViolation('task:sent-as-broadcast', 'the forwarding task sends the datagram without a destination hardware address (broadcast) although the next hop was resolved')
        okv, m = _valid(ex, ex.binop('Eq', sd['mac'].f[0], mac, False))
        if not okv:
            raise SpecViolation('task:sent-to-other-mac', 'the forwarding task addresses the frame to another hardware address than the resolved one', m)
        bs2 = udpspec.real_msg_bytes(ex, sd['message'])
        if len(bs2) != len(bs):
            raise SpecViolation('task:forwarded-length', f'the forwarding task sends {len(bs2)} bytes instead of {len(bs)}')
        for i, (x, y) in enumerate(zip(bs2, bs)):
            okv, m = _valid(ex, ex.binop('Eq', x, y, False))
            if not okv:
                raise SpecViolation('task:forwarded-packet-altered', f'byte {i} of the frame sent by the forwarding task differs from the packet prepared by demux', m)
        return 'forwarded; task: resolved -> one unicast frame on the route\'s interface'

    def on_end(ex, kind, r):
        res['paths'] += 1
        if kind == 'panic':
            okk, m = ex.check_sat()
            vals = {}
            if m is not None:
                for d in m.decls():
                    try:
                        vals[str(d)] = m[d].as_long()
                    except Exception:
                        pass
            res['violations'].append({'key': f'mirx:router:panic:{re.sub(r"[^A-Za-z0-9 _.-]", "", r.msg)[:60]}', 'desc': f'panic in {r.site}: {r.msg}', 'values': vals, 'unit': res['unit']})
        elif len(res['samples']) < 3 and r not in res['samples']:
            res['samples'].append(r)

    def wrapped(ex):
        try:
            return body(ex)
        except SpecViolation as v:
            m = v.model if v.model is not None else ex.check_sat()[1]
            vals = {}
            if m is not None:
                for d in m.decls():
                    try:
                        vals[str(d)] = m[d].as_long()
                    except Exception:
                        pass
            res['violations'].append({'key': f'mirx:router:{v.role}', 'desc': v.desc, 'values': vals, 'unit': res['unit']})
            raise PathEnd()

    ex.explore(wrapped, on_end, deadline=unit.get('deadline'))


def units(tier):
    us = [{'routes': 0, 'gateways': [], 'slots': [], 'payload': 0}]
    for gws in ([True], [False]):
        us.append({'routes': 1, 'gateways': gws, 'slots': [1], 'payload': 2})
    for gws in ([True, False], [False, True], [True, True]):
        us.append({'routes': 2, 'gateways': gws, 'slots': [0, 1], 'payload': 0 if tier == 'quick' else 3})
    if tier != 'quick':
        us.append({'routes': 3, 'gateways': [True, False, True], 'slots': [0, 1, 0], 'payload': 1})
    return us


_W = {}


def worker(args):
    unit, budget = args
    if not _W:
        _W['l'] = loader.load_shim(['applications/arp_router.rs'], name='shim-router')
        _W['H'] = Hdr(_W['l'][2])
    fns, enums, src, shim_root = _W['l']
    ex = loader.new_exec(fns, enums, src, message_model=False)
    ex.extra_roots = [shim_root]
    install_env(ex)
    res = {'unit': dict(unit), 'paths': 0, 'obligations': 0, 'violations': [], 'samples': [], 'unsupported': []}
    t0 = time.time()
    u = dict(unit, deadline=t0 + budget)
    try:
        run_unit(ex, _W['H'], u, res)
    except Unsupported as e:
        res['unsupported'].append(str(e)[:300])
    except Exception as e:
        res['unsupported'].append(f'internal error {e!r}: ' + traceback.format_exc()[-700:])
    res['wall'] = time.time() - t0
    res['stats'] = dict(ex.stats)
    res['encoded'] = sorted(ex.encoded)
    res['models'] = sorted(ex.models_used)
    return res
