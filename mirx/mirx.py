#!/usr/bin/env python3
"""Spike: symbolic executor over rustc MIR text (-Zunpretty=mir), path-based, z3 back end."""
import re, sys, copy, time
import z3

# ---------------------------------------------------------------- parsing
class Fn:
    def __init__(self, name, sig):
        self.name = name; self.sig = sig
        self.params = []      # [(local, type)]
        self.ret = None
        self.locals = {}      # n -> type
        self.blocks = {}      # 'bbN' -> (stmts[list[str]], term str)
        self.impl_at = None   # (file, line) if inside impl

def split_top(s, sep=','):
    """split on sep at nesting depth 0 wrt ()[]{}<> and quotes"""
    out = []; depth = 0; cur = []; i = 0; inq = False
    while i < len(s):
        c = s[i]
        if inq:
            cur.append(c)
            if c == '\\': cur.append(s[i+1]); i += 1
            elif c == '"': inq = False
        elif c == '"': inq = True; cur.append(c)
        elif c in '([{': depth += 1; cur.append(c)
        elif c in ')]}': depth -= 1; cur.append(c)
        elif c == '<' and _is_generic_open(s, i): depth += 1; cur.append(c)
        elif c == '>' and depth > 0 and _is_generic_close(s, i): depth -= 1; cur.append(c)
        elif c == sep and depth == 0:
            out.append(''.join(cur).strip()); cur = []
        else: cur.append(c)
        i += 1
    t = ''.join(cur).strip()
    if t: out.append(t)
    return out

def _is_generic_open(s, i):
    # '<' is generic unless surrounded by spaces (never in MIR operands since ops are functions)
    return True
def _is_generic_close(s, i):
    return not (i > 0 and s[i-1] in '-=')   # '->' '=>'

FN_RE = re.compile(r'^fn (.*?)\((.*)\) -> (.*) \{$')

def parse_mir(text):
    fns = {}
    lines = text.split('\n')
    i = 0
    while i < len(lines):
        ln = lines[i]
        cm = re.match(r'^(?:const|static) ((?:<impl at [^>]*>|[^:<]|::|<[^>]*>)*?): (.*) = const (.*);$', ln)
        if cm:
            f = Fn('const:' + cm.group(1), ln); f.ret = cm.group(2)
            f.blocks['bb0'] = (['_0 = const ' + cm.group(3)], 'return')
            fns.setdefault(f.name, f)
            i += 1; continue
        cm = re.match(r'^(?:const|static) ((?:<impl at [^>]*>|[^:<]|::|<[^>]*>)*?): (.*) = \{$', ln)
        if ln.startswith('fn ') or cm:
            if cm:
                name, params, ret = 'const:' + cm.group(1), '', cm.group(2)
            else:
              m = FN_RE.match(ln)
              if not m:
                i += 1; continue
              name, params, ret = m.group(1), m.group(2), m.group(3)
            f = Fn(name, ln)
            for p in split_top(params):
                pm = re.match(r'^(_\d+): (.*)$', p)
                if pm: f.params.append((pm.group(1), pm.group(2)))
            f.ret = ret
            im = re.search(r'<impl at ([^:]+):(\d+):(\d+): (\d+):(\d+)>', name)
            if im: f.impl_at = (im.group(1), int(im.group(2)), int(im.group(3)))
            i += 1
            cur = None
            while i < len(lines) and lines[i] != '}':
                l = lines[i].strip()
                lm = re.match(r'^let (?:mut )?(_\d+): (.*);$', l)
                if lm: f.locals[lm.group(1)] = lm.group(2)
                bm = re.match(r'^(bb\d+)(?: \(cleanup\))?: \{$', l)
                if bm:
                    cur = bm.group(1); stmts = []
                    i += 1
                    while lines[i].strip() != '}':
                        s = lines[i].strip()
                        # multi-line statements (rare): join until ';' end
                        while not s.endswith(';'):
                            i += 1; s += ' ' + lines[i].strip()
                        stmts.append(s[:-1])
                        i += 1
                    f.blocks[cur] = (stmts[:-1], stmts[-1])
                i += 1
            for (p, t) in f.params: f.locals[p] = t
            if name not in fns: fns[name] = f
        i += 1
    return fns

# ---------------------------------------------------------------- values
INT_W = {'u8':8,'u16':16,'u32':32,'u64':64,'u128':128,'usize':64,'i8':8,'i16':16,'i32':32,'i64':64,'i128':128,'isize':64}
SIGNED = {'i8','i16','i32','i64','i128','isize'}

class Agg:
    """struct / tuple / enum-variant payload; fields by index"""
    def __init__(self, ty, fields=None, variant=None):
        self.ty = ty; self.f = dict(fields or {}); self.variant = variant
    def __repr__(self): return f'Agg<{self.ty}{"::"+str(self.variant) if self.variant is not None else ""}>{self.f}'

class Ref:
    def __init__(self, cont, key): self.cont = cont; self.key = key
    def get(self): return self.cont[self.key]
    def set(self, v): self.cont[self.key] = v
    def __repr__(self): return f'Ref({self.key})'

class ListV:
    def __init__(self, kind, items=None): self.kind = kind; self.items = list(items or [])
    def __repr__(self): return f'{self.kind}{self.items}'

class IterV:
    def __init__(self, lst, mutable, pos=0, mapf=None): self.lst = lst; self.pos = pos; self.mutable = mutable; self.mapf = mapf

class MsgV:
    """length-only message"""
    def __init__(self, length): self.len = length
    def __repr__(self): return f'Msg(len={self.len})'

class Unit:
    def __repr__(self): return '()'
UNIT = Unit()

class Panic(Exception):
    def __init__(self, msg): self.msg = msg
class PathEnd(Exception): pass
class Unsupported(Exception): pass

def bv(v, w): return z3.BitVecVal(v, w)
def is_conc(x): return isinstance(x, (int, bool)) or z3.is_bv_value(x) or z3.is_true(x) or z3.is_false(x)

# ---------------------------------------------------------------- executor
class Exec:
    def __init__(self, fns, enum_info=None, consts=None):
        self.fns = fns
        self.by_last = {}
        for n, f in fns.items():
            last = n.split('::')[-1]
            self.by_last.setdefault(last, []).append(f)
        self.enum_info = enum_info or {}
        self.intrinsics = {}
        self.solver = z3.Solver()
        self.stats = {'paths':0, 'solver_calls':0, 'solver_time':0.0}
        self.src_cache = {}

    # ---- path driver
    def explore(self, setup, body, on_end, max_paths=100000):
        work = [[]]
        results = []
        while work:
            prefix = work.pop()
            self.prefix = prefix; self.dec_i = 0; self.pc = []; self.work = work; self.taken = []
            self.stats['paths'] += 1
            if self.stats['paths'] > max_paths: raise Exception('too many paths')
            try:
                st = setup(self)
                try:
                    ret = body(self, st)
                    on_end(self, st, ('ok', ret))
                except Panic as p:
                    on_end(self, st, ('panic', p.msg))
            except PathEnd:
                pass
        return results

    def check(self, extra):
        t = time.time(); self.stats['solver_calls'] += 1
        self.solver.push()
        for c in self.pc: self.solver.add(c)
        for c in extra: self.solver.add(c)
        r = self.solver.check()
        m = self.solver.model() if r == z3.sat else None
        self.solver.pop()
        self.stats['solver_time'] += time.time() - t
        return r, m

    def assume(self, c):
        c = z3.simplify(c) if not isinstance(c, bool) else c
        if c is True or z3.is_true(c): return
        if c is False or z3.is_false(c): raise PathEnd()
        self.pc.append(c)

    def branch(self, options):
        """options: list of (label, cond z3 Bool). returns chosen label; forks."""
        # concrete shortcut
        live = []
        for (lab, c) in options:
            c = z3.simplify(c) if not isinstance(c, bool) else z3.BoolVal(c)
            if z3.is_false(c): continue
            live.append((lab, c))
        if len(live) == 1 and z3.is_true(live[0][1]): return live[0][0]
        if self.dec_i < len(self.prefix):
            lab = self.prefix[self.dec_i]; self.dec_i += 1
            for (l, c) in live:
                if l == lab:
                    self.pc.append(c); self.taken.append(lab); return lab
            raise Exception('replay divergence')
        feas = []
        for (l, c) in live:
            r, _ = self.check([c])
            if r == z3.sat: feas.append((l, c))
            elif r != z3.unsat: raise Exception('solver unknown')
        if not feas: raise PathEnd()
        for (l, c) in feas[1:]:
            self.work.append(self.taken + [l])
        l, c = feas[0]
        self.prefix = self.taken + [l]  # extend so replays stay aligned
        self.dec_i = len(self.prefix)
        self.pc.append(c); self.taken.append(l)
        return l

    # ---- function lookup
    def impl_type(self, f):
        if f.impl_at is None: return None
        key = f.impl_at
        if key in self.src_cache: return self.src_cache[key]
        path = self.src_root + '/' + f.impl_at[0]
        try:
            lines = open(path).read().split('\n')
            l = lines[f.impl_at[1]-1][f.impl_at[2]-1:]
        except Exception:
            l = ''
        r = None
        m = re.match(r'impl(?:<[^>]*>)?\s+(?:([\w:<>, ]+?)\s+for\s+)?([\w:]+)', l)
        if m: r = (m.group(1), m.group(2).split('::')[-1])
        elif l.startswith('derive') or re.match(r'\w+', l):
            # derive(...) attribute position: trait name token at col
            tm = re.match(r'(\w+)', l)
            # find the type defined after the derive attr
            j = f.impl_at[1]-1
            ty = None
            while j < len(lines):
                dm = re.match(r'\s*(?:pub(?:\([^)]*\))?\s+)?(?:struct|enum)\s+(\w+)', lines[j])
                if dm: ty = dm.group(1); break
                j += 1
            r = (tm.group(1) if tm else None, ty)
        self.src_cache[key] = r
        return r

    def resolve(self, callee):
        """callee text as printed at call site -> Fn or None"""
        name = re.sub(r'::<[^()]*>$', '', callee)  # strip turbofish at end
        if name in self.fns: return self.fns[name]
        # <T as Trait>::method
        m = re.match(r'^<(.*) as (.*)>::(\w+)$', name)
        if m:
            ty, tr, meth = m.group(1), m.group(2), m.group(3)
            tyl = re.sub(r'<.*$', '', ty).split('::')[-1]; trl = re.sub(r'<.*$', '', tr).split('::')[-1]
            for f in self.by_last.get(meth, []):
                it = self.impl_type(f)
                if it and it[1] == tyl and it[0] and re.sub(r'<.*$', '', it[0]).split('::')[-1] == trl: return f
            return None
        parts = name.split('::')
        meth = parts[-1]
        if len(parts) >= 2:
            tyl = re.sub(r'<.*$', '', parts[-2])
            cands = []
            for f in self.by_last.get(meth, []):
                it = self.impl_type(f)
                if it and it[1] == tyl and it[0] is None: cands.append(f)
            if len(cands) == 1: return cands[0]
            if cands:
                mods = parts[:-2]
                def score(f):
                    dm = [x for x in re.sub(r'<impl at [^>]*>.*$', '', f.name).split('::') if x]
                    n = 0
                    while n < len(dm) and n < len(mods) and dm[-1-n] == mods[-1-n]: n += 1
                    return n
                cands.sort(key=score, reverse=True)
                return cands[0]
            # free function in module
            for f in self.by_last.get(meth, []):
                if f.impl_at is None and f.name.endswith('::'.join(parts[-2:])): return f
        for f in self.by_last.get(meth, []):
            if f.impl_at is None and (f.name == name or f.name.endswith('::' + name)): return f
        return None

    # ---- evaluation
    SUMMARIZE = re.compile(r'modular_cmp::mod_|^(tcp_parsing::)?Control::(syn|ack|fin|rst|psh|urg|bit)$|^ModCmp::offset$')
    def summarized_call(self, callee, args):
        # args: z3 scalars or Agg with only scalar fields; build key from shapes
        def shape(a):
            if isinstance(a, Agg): return ('agg', a.ty, a.variant if not z3.is_expr(a.variant) else 'sym', tuple((k, shape(v)) for k, v in sorted(a.f.items())))
            if z3.is_bool(a): return 'bool'
            if z3.is_bv(a): return ('bv', a.size())
            raise Unsupported('summary arg')
        key = (callee, tuple(shape(a) for a in args))
        if not hasattr(self, '_summ'): self._summ = {}
        if key not in self._summ:
            cnt = [0]
            def fresh(a):
                if isinstance(a, Agg):
                    return Agg(a.ty, {k: fresh(v) for k, v in a.f.items()}, a.variant)
                cnt[0] += 1
                if z3.is_bool(a): return z3.Bool(f'__s{len(self._summ)}_{cnt[0]}')
                return z3.BitVec(f'__s{len(self._summ)}_{cnt[0]}', a.size())
            formals = [fresh(a) for a in args]
            sub = Exec(self.fns, self.enum_info); sub.src_root = self.src_root; sub.intrinsics = self.intrinsics; sub.src_cache = self.src_cache
            sub._summ = self._summ
            cases = []
            f = self.resolve(callee)
            def setup(e): return None
            def body(e, st): return e.run(f, [copy.deepcopy(x) for x in formals])
            def on_end(e, st, res): cases.append((z3.And(e.pc) if e.pc else z3.BoolVal(True), res))
            # avoid recursion into summary for the same key
            self._summ[key] = None
            sub.explore(setup, body, on_end)
            ret = None; panic = z3.BoolVal(False)
            for pc, (kind, r) in cases:
                if kind == 'panic': panic = z3.Or(panic, pc)
                else: ret = r if ret is None else z3.If(pc, r, ret)
            self._summ[key] = (formals, z3.simplify(ret), z3.simplify(panic))
        formals, ret, panic = self._summ[key]
        subs = []
        def pair(fm, a):
            if isinstance(fm, Agg):
                for k in fm.f: pair(fm.f[k], a.f[k])
            else: subs.append((fm, a))
        for fm, a in zip(formals, args): pair(fm, a)
        pc = z3.substitute(panic, *subs) if subs else panic
        if not z3.is_false(z3.simplify(pc)):
            lab = self.branch([('ok', z3.Not(pc)), ('fail', pc)])
            if lab == 'fail': raise Panic('panic inside ' + callee)
        return z3.substitute(ret, *subs) if subs else ret

    def call(self, callee, args, depth=0):
        if self.SUMMARIZE.search(callee) and getattr(self, 'use_summaries', True):
            try:
                return self.summarized_call(callee, args)
            except Unsupported:
                pass
        for pat, h in self.intrinsics.items():
            if re.search(pat, callee):
                return h(self, callee, args)
        f = self.resolve(callee)
        if f is None: raise Unsupported('call ' + callee)
        try:
            return self.run(f, args, depth+1)
        except Unsupported as e:
            if not getattr(e, 'traced', False):
                e.traced = True
            print('  in call', callee, '->', f.name, file=sys.stderr)
            raise

    def run(self, f, args, depth=0):
        if depth > 60: raise Unsupported('depth')
        loc = {}
        for (p, t), a in zip(f.params, args): loc[p] = a
        bb = 'bb0'
        steps = 0
        while True:
            steps += 1
            if steps > 5000: raise Unsupported('loop bound in ' + f.name)
            stmts, term = f.blocks[bb]
            for s in stmts: self.stmt(f, loc, s)
            # terminator
            if term == 'return': return loc.get('_0', UNIT)
            if term == 'unreachable': raise Panic('unreachable reached in ' + f.name)
            if term.startswith('goto -> '): bb = term[8:]; continue
            m = re.match(r'^switchInt\((.*)\) -> \[(.*)\]$', term)
            if m:
                v = self.operand(f, loc, m.group(1))
                targets = [t.split(': ') for t in split_top(m.group(2))]
                bb = self.switch(v, targets); continue
            m = re.match(r'^assert\((!?)(.*?), (".*?")(?:, .*)?\) -> \[success: (bb\d+), unwind.*\]$', term)
            if m:
                c = self.operand(f, loc, m.group(2))
                c = self.tobool(c)
                if m.group(1) == '!': c = z3.Not(c)
                lab = self.branch([('ok', c), ('fail', z3.Not(c))])
                if lab == 'fail': raise Panic('assert ' + m.group(3) + ' in ' + f.name)
                bb = m.group(4); continue
            m = re.match(r'^drop\((.*)\) -> \[return: (bb\d+), unwind.*\]$', term)
            if m: bb = m.group(2); continue
            m = re.match(r'^(.*?) = (.*)\((.*)\) -> \[return: (bb\d+), unwind.*\]$', term)
            if m:
                dst, callee, argtxt, nxt = m.groups()
                args2 = [self.operand(f, loc, a) for a in split_top(argtxt)]
                r = self.call(callee, args2, depth)
                self.assign(f, loc, dst, r)
                bb = nxt; continue
            m = re.match(r'^(.*?) = (.*?)\((.*)\) -> (?:unwind.*|bb\d+)$', term)  # diverging call
            if m:
                callee = m.group(2)
                raise Panic('diverging call ' + callee + ' in ' + f.name)
            m = re.match(r'^(.*)\((.*)\) -> unwind.*$', term)
            if m: raise Panic('diverging call ' + m.group(1) + ' in ' + f.name)
            raise Unsupported('terminator: ' + term)

    def tobool(self, c):
        if isinstance(c, bool): return z3.BoolVal(c)
        if z3.is_bool(c): return c
        return c != 0

    def switch(self, v, targets):
        if z3.is_bool(v) or isinstance(v, bool):
            v = z3.If(self.tobool(v), bv(1, 8), bv(0, 8))
        w = v.size()
        opts = []; others = []
        for val, tgt in targets:
            if val == 'otherwise': continue
            c = v == bv(int(val), w); opts.append((tgt, c)); others.append(c)
        for val, tgt in targets:
            if val == 'otherwise': opts.append((tgt, z3.Not(z3.Or(others)) if others else z3.BoolVal(True)))
        return self.branch(opts)

    def ty_of_place(self, f, txt):
        return None

    def place(self, f, loc, txt):
        """returns Ref to the location"""
        txt = txt.strip()
        if re.match(r'^_\d+$', txt): return Ref(loc, txt)
        if txt.startswith('(*') and txt.endswith(')'):
            inner = self.place(f, loc, txt[2:-1]).get()
            if not isinstance(inner, Ref): raise Unsupported('deref non-ref ' + txt + ' ' + repr(inner))
            return inner
        if txt.startswith('(') and txt.endswith(')'):
            body = txt[1:-1]
            # field: PLACE.N: TYPE   or downcast: PLACE as Variant
            m = re.match(r'^(.*) as (\w+)$', body)
            if m and self._balanced(m.group(1)):
                return self.place(f, loc, m.group(1))   # downcast is a no-op on our enum repr
            # find last '.N: ' at depth 0
            idx = self._field_split(body)
            if idx:
                base, n = idx
                b = self.place(f, loc, base).get()
                if isinstance(b, MsgV) and n == 1: return Ref(b.__dict__, 'len')
                if not isinstance(b, Agg): raise Unsupported(f'field of non-agg {txt}: {b!r}')
                return Ref(b.f, n)
        m = re.match(r'^(.*)\[(_\d+)\]$', txt)
        if m:
            b = self.place(f, loc, m.group(1)).get(); i = loc[m.group(2)]
            raise Unsupported('index')
        raise Unsupported('place: ' + txt)

    def _balanced(self, s):
        d = 0
        for c in s:
            if c in '(': d += 1
            elif c in ')': d -= 1
            if d < 0: return False
        return d == 0

    def _field_split(self, body):
        d = 0
        for i, c in enumerate(body):
            if c in '(<[': d += 1
            elif c in ')]': d -= 1
            elif c == '>' and body[i-1] != '-': d -= 1
            elif c == '.' and d == 0:
                m = re.match(r'^\.(\d+): ', body[i:])
                if m: return body[:i], int(m.group(1))
        return None

    def assign(self, f, loc, dst, v):
        self.place(f, loc, dst).set(v)

    def const(self, f, txt):
        txt = txt.strip()
        if txt in ('true', 'false'): return z3.BoolVal(txt == 'true')
        m = re.match(r'^(-?\d+)_(\w+)$', txt)
        if m: return bv(int(m.group(1)), INT_W[m.group(2)])
        if txt == '()': return UNIT
        if txt.startswith('"'): return txt
        if txt.startswith('ZeroSized'): return ('zst', txt)
        if txt == '[]': return ListV('array', [])
        # named const: look up "const NAME: T = ..." bodies
        r = self.named_const(txt, f)
        if r is not None: return r
        raise Unsupported('const ' + txt)

    def named_const(self, name, cur=None):
        pm = re.search(r'::(promoted\[\d+\])$', name)
        if pm and cur is not None:
            k = 'const:' + cur.name.replace('const:', '') + '::' + pm.group(1)
            if k in self.fns:
                holder = {}
                v = self.run(self.fns[k], [])
                return v
        if not hasattr(self, '_const_idx'):
            self._const_idx = {}
            for k, fn in self.fns.items():
                if k.startswith('const:'):
                    segs = re.sub(r'<impl at [^>]*>', '', k[6:]).split('::')
                    segs = [x for x in segs if x]
                    self._const_idx.setdefault(segs[-1], []).append((segs, fn))
        segs = [x for x in name.split('::') if x]
        cands = self._const_idx.get(segs[-1], [])
        best = None
        for (cs, fn) in cands:
            # score: length of common suffix
            n = 0
            while n < len(cs) and n < len(segs) and cs[-1-n] == segs[-1-n]: n += 1
            if best is None or n > best[0]: best = (n, fn)
        if best is not None:
            return self.run(best[1], [])
        if hasattr(self, 'consts') and name in self.consts: return copy.deepcopy(self.consts[name])
        last = name.split('::')[-1]
        if hasattr(self, 'consts'):
            for k, v in self.consts.items():
                if k.split('::')[-1] == last: return copy.deepcopy(v)
        return None

    def operand(self, f, loc, txt):
        txt = txt.strip()
        if txt.startswith('const '): return self.const(f, txt[6:])
        if txt.startswith('copy '):
            v = self.place(f, loc, txt[5:]).get()
            return copy.deepcopy(v) if isinstance(v, (Agg, MsgV)) else v
        if txt.startswith('move '): return self.place(f, loc, txt[5:]).get()
        raise Unsupported('operand: ' + txt)

    BIN = {'Add','Sub','Mul','BitAnd','BitOr','BitXor','Shl','Shr','Eq','Ne','Lt','Le','Gt','Ge','Div','Rem',
           'AddWithOverflow','SubWithOverflow','MulWithOverflow','AddUnchecked','SubUnchecked'}

    def stmt(self, f, loc, s):
        if s.startswith('StorageLive') or s.startswith('StorageDead') or s == 'nop' or s.startswith('FakeRead') or s.startswith('PlaceMention') or s.startswith('Retag') or s.startswith('AscribeUserType') or s.startswith('Coverage') or s.startswith('ConstEvalCounter'): return
        m = re.match(r'^(.*?) = (.*)$', s)
        if not m: raise Unsupported('stmt: ' + s)
        dst, rv = m.group(1), m.group(2)
        v = self.rvalue(f, loc, rv, dst)
        self.assign(f, loc, dst, v)

    def signed_of(self, f, loc, optxt):
        m = re.match(r'^(?:copy|move) (_\d+)$', optxt.strip())
        if m: return f.locals.get(m.group(1)) in SIGNED
        m = re.match(r'^const -?\d+_(\w+)$', optxt.strip())
        if m: return m.group(1) in SIGNED
        m = re.search(r': (\w+)\)$', optxt.strip())
        if m: return m.group(1) in SIGNED
        return False

    def rvalue(self, f, loc, rv, dst=None):
        rv = rv.strip()
        if rv.startswith('const ') or rv.startswith('copy ') or rv.startswith('move '):
            m = re.match(r'^(.*) as (.*) \((\w+)\)$', rv)
            if m and self._balanced(m.group(1)):
                v = self.operand(f, loc, m.group(1)); return self.cast(v, m.group(2), m.group(3), self.signed_of(f, loc, m.group(1)))
            return self.operand(f, loc, rv)
        if rv.startswith('&mut ') : return self.place(f, loc, rv[5:])
        if rv.startswith('&raw '): raise Unsupported('raw ref')
        if rv.startswith('&'): return self.place(f, loc, rv[1:])
        m = re.match(r'^discriminant\((.*)\)$', rv)
        if m:
            v = self.place(f, loc, m.group(1)).get()
            return self.discr(v)
        m = re.match(r'^(\w+)\((.*)\)$', rv)
        if m and m.group(1) in self.BIN:
            a, b = split_top(m.group(2))
            sg = self.signed_of(f, loc, a)
            return self.binop(m.group(1), self.operand(f, loc, a), self.operand(f, loc, b), sg)
        if m and m.group(1) == 'Not':
            v = self.operand(f, loc, m.group(2))
            return z3.Not(v) if z3.is_bool(v) else ~v
        if m and m.group(1) == 'Neg':
            return -self.operand(f, loc, m.group(2))
        return self.aggregate(f, loc, rv, dst)

    def discr(self, v):
        if isinstance(v, Agg):
            if isinstance(v.variant, int): return bv(v.variant, 64)
            return v.variant
        if z3.is_bv(v): return z3.ZeroExt(64 - v.size(), v) if v.size() < 64 else v
        raise Unsupported('discriminant of ' + repr(v))

    def cast(self, v, ty, kind, src_signed=False):
        if kind == 'IntToInt':
            if z3.is_bool(v): v = z3.If(v, bv(1, 8), bv(0, 8))
            if isinstance(v, Agg) and not v.f: v = self.discr(v)   # fieldless enum as int
            w = INT_W[ty]; sw = v.size()
            if w == sw: return v
            if w < sw: return z3.Extract(w-1, 0, v)
            return z3.SignExt(w - sw, v) if src_signed else z3.ZeroExt(w - sw, v)
        if kind in ('PointerCoercion', 'Transmute'): return v
        raise Unsupported('cast ' + kind)

    def binop(self, op, a, b, signed):
        if z3.is_bool(a) and op in ('Eq', 'Ne', 'BitAnd', 'BitOr', 'BitXor'):
            b = self.tobool(b)
            return {'Eq': a == b, 'Ne': a != b, 'BitAnd': z3.And(a, b), 'BitOr': z3.Or(a, b), 'BitXor': z3.Xor(a, b)}[op]
        if op in ('Shl', 'Shr') and a.size() != b.size():
            b = z3.ZeroExt(a.size() - b.size(), b) if b.size() < a.size() else z3.Extract(a.size()-1, 0, b)
        if op in ('Add', 'AddUnchecked'): return a + b
        if op in ('Sub', 'SubUnchecked'): return a - b
        if op == 'Mul': return a * b
        if op == 'BitAnd': return a & b
        if op == 'BitOr': return a | b
        if op == 'BitXor': return a ^ b
        if op == 'Shl': return a << b
        if op == 'Shr': return (a >> b) if signed else z3.LShR(a, b)
        if op == 'Div': return (a / b) if signed else z3.UDiv(a, b)
        if op == 'Rem': return z3.SRem(a, b) if signed else z3.URem(a, b)
        if op == 'Eq': return a == b
        if op == 'Ne': return a != b
        if op == 'Lt': return (a < b) if signed else z3.ULT(a, b)
        if op == 'Le': return (a <= b) if signed else z3.ULE(a, b)
        if op == 'Gt': return (a > b) if signed else z3.UGT(a, b)
        if op == 'Ge': return (a >= b) if signed else z3.UGE(a, b)
        if op == 'AddWithOverflow':
            r = a + b
            ov = z3.Not(z3.BVAddNoOverflow(a, b, signed)) if not signed else z3.Or(z3.Not(z3.BVAddNoOverflow(a, b, True)), z3.Not(z3.BVAddNoUnderflow(a, b)))
            return Agg('(T,bool)', {0: r, 1: ov})
        if op == 'SubWithOverflow':
            r = a - b
            ov = z3.ULT(a, b) if not signed else z3.Or(z3.Not(z3.BVSubNoOverflow(a, b)), z3.Not(z3.BVSubNoUnderflow(a, b, True)))
            return Agg('(T,bool)', {0: r, 1: ov})
        if op == 'MulWithOverflow':
            r = a * b
            ov = z3.Not(z3.BVMulNoOverflow(a, b, signed))
            return Agg('(T,bool)', {0: r, 1: ov})
        raise Unsupported('binop ' + op)

    def aggregate(self, f, loc, rv, dst):
        # tuple
        if rv.startswith('(') and rv.endswith(')'):
            items = split_top(rv[1:-1])
            return Agg('tuple', {i: self.operand(f, loc, x) for i, x in enumerate(items)})
        # struct: Path { a: op, b: op }
        m = re.match(r'^([\w:<>, ]+?) \{ (.*) \}$', rv)
        if m:
            fields = split_top(m.group(2))
            vals = {}
            for i, fl in enumerate(fields):
                k, v = fl.split(': ', 1)
                vals[i] = self.operand(f, loc, v)
            return self.mk_struct(m.group(1), vals, [fl.split(': ', 1)[0] for fl in fields])
        # enum variant with payload: Path::Variant(op, ...)
        m = re.match(r'^([\w:<>, ]+?)::(\w+)\((.*)\)$', rv)
        if m:
            items = split_top(m.group(3))
            return self.mk_variant(m.group(1), m.group(2), {i: self.operand(f, loc, x) for i, x in enumerate(items)})
        m = re.match(r'^(\w+)\((.*)\)$', rv)
        if m:
            items = split_top(m.group(2))
            return Agg(m.group(1), {i: self.operand(f, loc, x) for i, x in enumerate(items)})
        # unit variant / unit struct
        m = re.match(r'^([\w:<>, ]+?)::(\w+)$', rv)
        if m: return self.mk_variant(m.group(1), m.group(2), {})
        raise Unsupported('rvalue: ' + rv)

    def mk_struct(self, ty, vals, names):
        return Agg(ty.split('::')[-1], vals)

    def mk_variant(self, ty, var, vals):
        tyl = re.sub(r'<.*$', '', ty).split('::')[-1]
        tyl = re.sub(r'::$', '', tyl)
        info = self.enum_info.get(tyl)
        if info is not None and var not in info: info = None
        if info is None and var in self.enum_info and not vals:
            pass
        if info is None:
            if tyl == 'Option' or ty.startswith('Option') or ty.startswith('std::option::Option'): info = {'None': 0, 'Some': 1}; tyl = 'Option'
            elif 'Result' in ty: info = {'Ok': 0, 'Err': 1}; tyl = 'Result'
            else: return Agg(var, vals)   # tuple struct  Path::Name(ops)
        return Agg(tyl, vals, variant=info[var])


def parse_enums(src_root):
    """crude scan of rust sources for enum declarations -> {Name: {Variant: discr}}"""
    import os
    out = {}
    for dp, dn, fn in os.walk(src_root):
        for n in fn:
            if not n.endswith('.rs'): continue
            txt = open(os.path.join(dp, n)).read()
            txt = re.sub(r'//[^\n]*', '', txt)
            for m in re.finditer(r'enum\s+(\w+)\s*\{', txt):
                i = m.end(); d = 1; j = i
                while d > 0 and j < len(txt):
                    if txt[j] == '{': d += 1
                    elif txt[j] == '}': d -= 1
                    j += 1
                body = txt[i:j-1]
                body = re.sub(r'#\[[^\]]*\]', '', body)
                vs = {}; nxt = 0
                for part in split_top(body):
                    vm = re.match(r'^(\w+)\s*(?:[\({].*[\)}])?\s*(?:=\s*(.+))?$', part.strip(), re.S)
                    if not vm: continue
                    if vm.group(2):
                        try: nxt = int(vm.group(2).replace('_', ''), 0)
                        except Exception: pass
                    vs[vm.group(1)] = nxt; nxt += 1
                out.setdefault(m.group(1), vs)
    return out
