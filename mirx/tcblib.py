"""Helpers to drive the real TCB MIR from Python specs (state construction through the public constructors,
field access by name, segment construction)."""
import os, re
import z3
from .core import Int, Agg, Ref, ListV, UNIT, Panic, Unsupported, sym_int, mk_bool, b_and, b_or, b_not, clone_val
from .msgmodel import MsgV, msg_of

_struct_cache = {}


def struct_fields(src_root, name, file_hint=None):
    """field names of `struct name {..}` in declaration order (MIR addresses fields by index)"""
    key = (src_root, name, file_hint)
    if key in _struct_cache:
        return _struct_cache[key]
    for dp, dn, fn in os.walk(os.path.join(src_root, 'src')):
        for n in sorted(fn):
            if not n.endswith('.rs'):
                continue
            p = os.path.join(dp, n)
            if file_hint and file_hint not in p:
                continue
            txt = re.sub(r'//[^\n]*', '', open(p).read())
            m = re.search(r'\bstruct\s+' + name + r'\s*(?:<[^>{]*>)?\s*\{', txt)
            if not m:
                continue
            i = m.end()
            d = 1
            j = i
            while d > 0:
                if txt[j] == '{':
                    d += 1
                elif txt[j] == '}':
                    d -= 1
                j += 1
            body = re.sub(r'#\[[^\]]*\]', '', txt[i:j - 1])
            names = []
            depth = 0
            cur = ''
            for ch in body:
                if ch in '<([':
                    depth += 1
                elif ch in '>)]':
                    depth -= 1
                if ch == ',' and depth == 0:
                    names.append(cur)
                    cur = ''
                else:
                    cur += ch
            names.append(cur)
            out = []
            for x in names:
                fm = re.match(r'\s*(?:pub(?:\([^)]*\))?\s+)?(\w+)\s*:', x)
                if fm:
                    out.append(fm.group(1))
            _struct_cache[key] = out
            return out
    raise Unsupported('struct not found: ' + name)


class Fields:
    """name -> index maps for the structs the specs touch"""

    def __init__(self, src_root):
        sf = lambda n, h=None: {k: i for i, k in enumerate(struct_fields(src_root, n, h))}
        self.tcb = sf('Tcb', 'tcb.rs')
        self.snd = sf('SendSequenceSpace')
        self.rcv = sf('ReceiveSequenceSpace')
        self.out = sf('Outgoing', 'outgoing.rs')
        self.inc = sf('Incoming', 'tcb.rs')
        self.hdr = sf('TcpHeader')
        self.seg = sf('Segment', 'tcb/segment.rs')
        self.tx = sf('Transmit')
        self.tmo = sf('Timeouts', 'tcb.rs')


STATES = ['SynSent', 'SynReceived', 'Established', 'FinWait1', 'FinWait2', 'CloseWait', 'Closing', 'LastAck', 'TimeWait']

FIN, SYN, RST, PSH, ACK, URG = 1, 2, 4, 8, 16, 32


def ipaddr(b):
    return Agg('Ipv4Address', {0: ListV('array', [Int(8, x) for x in b])})


def endpoint(addr, port):
    return Agg('Endpoint', {0: ipaddr(addr), 1: port if isinstance(port, Int) else Int(16, port)})


def endpoints(local, lport, remote, rport):
    return Agg('Endpoints', {0: endpoint(local, lport), 1: endpoint(remote, rport)})


def header(F, sport, dport, seq, ack, ctl, wnd):
    """TcpHeader value (fields by name)"""
    vals = {'src_port': sport, 'dst_port': dport, 'seq': seq, 'ack': ack, 'data_offset': Int(8, 5),
            'ctl': Agg('Control', {0: ctl if isinstance(ctl, Int) else Int(8, ctl)}), 'wnd': wnd, 'urg': Int(16, 0), 'checksum': Int(16, 0)}
    f = {}
    for k, i in F.hdr.items():
        v = vals[k]
        f[i] = v if not isinstance(v, int) else Int({'src_port': 16, 'dst_port': 16, 'seq': 32, 'ack': 32, 'wnd': 16}[k], v)
    return Agg('TcpHeader', f)


def segment(F, hdr, msg):
    f = {F.seg['header']: hdr, F.seg['text']: msg}
    return Agg('Segment', f)


class TcbView:
    """read access to a Tcb value by field names"""

    def __init__(self, F, tcb):
        self.F = F
        self.t = tcb

    def _g(self, *path):
        v = self.t
        maps = {'snd': self.F.snd, 'rcv': self.F.rcv, 'outgoing': self.F.out, 'incoming': self.F.inc, 'timeouts': self.F.tmo}
        cur = self.F.tcb
        for p in path:
            v = v.f[cur[p]]
            cur = maps.get(p, {})
        return v

    @property
    def state(self):
        return self._g('state').variant

    @property
    def state_name(self):
        v = self.state
        v = v.v if isinstance(v, Int) else v
        return STATES[v]

    def snd(self, k):
        return self._g('snd', k)

    def rcv(self, k):
        return self._g('rcv', k)

    @property
    def mtu(self):
        return self._g('mtu')

    @property
    def out_text(self):
        return self._g('outgoing', 'text')

    @property
    def retransmit(self):
        return self._g('outgoing', 'retransmit')

    @property
    def oneshot(self):
        return self._g('outgoing', 'oneshot')

    @property
    def in_text(self):
        return self._g('incoming', 'text')

    @property
    def in_segments(self):
        return self._g('incoming', 'segments')

    @property
    def rto(self):
        return self._g('timeouts', 'retransmission')

    @property
    def time_wait(self):
        return self._g('timeouts', 'time_wait')


class HdrView:
    def __init__(self, F, h):
        self.F = F
        self.h = h

    def __getattr__(self, k):
        if k == 'ctl':
            return self.h.f[self.F.hdr['ctl']].f[0]
        if k in self.F.hdr:
            return self.h.f[self.F.hdr[k]]
        raise AttributeError(k)

    def flag(self, bit):
        c = self.ctl
        if c.conc:
            return bool(c.v & bit)
        return mk_bool(z3.simplify((c.v & bit) != 0))


def seg_parts(F, seg):
    return HdrView(F, seg.f[F.seg['header']]), seg.f[F.seg['text']]
