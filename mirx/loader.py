"""Dump MIR from /repo's current working tree (scratch copy, nightly rustc) and build an executor."""
import hashlib, os, pickle, re, shutil, subprocess, sys, time
from . import core, models, msgmodel

VERIF = os.path.dirname(os.path.dirname(os.path.abspath(__file__)))
REPO = os.environ.get('VERIF_REPO', '/repo')
CACHE = os.path.join(VERIF, '.cache')


def _tree_hash(root, extra=''):
    h = hashlib.sha256(extra.encode())
    for dp, dn, fn in sorted(os.walk(root)):
        dn.sort()
        if 'target' in dn:
            dn.remove('target')
        for n in sorted(fn):
            if n.endswith('.rs') or n == 'Cargo.toml':
                p = os.path.join(dp, n)
                h.update(p[len(root):].encode())
                h.update(open(p, 'rb').read())
    return h.hexdigest()[:20]


def dump_mir(crate='elvis-core', features=None, shim=None):
    """returns (mir_text, src_root).  Regenerated whenever any source file changed (content hash)."""
    src = os.path.join(REPO, 'sim', crate)
    key = _tree_hash(src, (features or '') + (repr((shim.get('name'), shim.get('modules'))) if shim else ''))
    if shim:
        for extra in shim.get('hash_files', []):
            key = hashlib.sha256((key + open(extra).read()).encode()).hexdigest()[:20]
    mdir = os.path.join(CACHE, 'mir')
    os.makedirs(mdir, exist_ok=True)
    tag = crate if not shim else shim.get('name', 'shim')
    out = os.path.join(mdir, f'{tag}-{key}.mir')
    srcsnap = os.path.join(mdir, f'{tag}-{key}.src')
    if os.path.exists(out) and os.path.exists(srcsnap):
        return open(out).read(), srcsnap
    scratch = os.path.join(os.environ.get('VERIF_SCRATCH', '/tmp/elvis-verif'), f'mir-{crate}.{os.getpid()}')
    shutil.rmtree(scratch, ignore_errors=True)
    os.makedirs(scratch)
    try:
        dst = os.path.join(scratch, crate)
        shutil.copytree(src, dst, ignore=shutil.ignore_patterns('target'))
        shutil.copy(os.path.join(REPO, 'sim', 'Cargo.lock'), os.path.join(dst, 'Cargo.lock'))
        with open(os.path.join(dst, 'Cargo.toml'), 'a') as f:
            f.write('\n[workspace]\n')
        build_dir = dst
        if shim:
            build_dir = shim['prepare'](scratch, dst)
        env = dict(os.environ)
        env['CARGO_NET_OFFLINE'] = 'true'
        env['CARGO_TARGET_DIR'] = os.path.join(CACHE, 'mir-target')
        cmd = ['cargo', '+nightly', 'rustc', '--offline', '--lib']
        if features:
            cmd += ['--features', features]
        cmd += ['--', '-Zunpretty=mir', '-C', 'debug-assertions=off', '-C', 'overflow-checks=on']
        from .native import target_lock
        from .native import touch_tree
        with target_lock('mir-target'):
            touch_tree(scratch)
            p = subprocess.run(cmd, cwd=build_dir, env=env, capture_output=True, text=True)
        if p.returncode != 0 or len(p.stdout) < 1000:
            raise RuntimeError('MIR dump failed:\n' + p.stderr[-3000:])
        tmp = out + f'.tmp{os.getpid()}'
        with open(tmp, 'w') as f:
            f.write(p.stdout)
        os.replace(tmp, out)
        shutil.rmtree(srcsnap, ignore_errors=True)
        shutil.copytree(build_dir, srcsnap, ignore=shutil.ignore_patterns('target'))
        return p.stdout, srcsnap
    finally:
        shutil.rmtree(scratch, ignore_errors=True)


_parsed = {}


def load(crate='elvis-core', features=None, shim=None):
    text, src_root = dump_mir(crate, features, shim)
    k = (crate, features, hashlib.sha256(text.encode()).hexdigest())
    if k not in _parsed:
        pk = os.path.join(CACHE, 'mir', f'{crate}-{k[2][:20]}-p2.pickle')      # p<N>: bump when parse_mir changes
        if os.path.exists(pk):
            try:
                _parsed[k] = pickle.load(open(pk, 'rb'))
            except Exception:
                pass
        if k not in _parsed:
            fns = core.parse_mir(text)
            enums = core.parse_enums(os.path.join(src_root, 'src'))
            _parsed[k] = (fns, enums)
            with open(pk + '.tmp', 'wb') as f:
                pickle.dump(_parsed[k], f)
            os.replace(pk + '.tmp', pk)
    fns, enums = _parsed[k]
    return fns, enums, src_root


def new_exec(fns, enums, src_root, message_model=True):
    ex = core.Exec(fns, enums, src_root)
    if message_model:
        msgmodel.install(ex)
    models.install(ex)
    return ex


def load_shim(modules, name='shim'):
    """MIR of files of the `elvis` crate (which drags in clap/tonic/...) through a tiny shim crate that #[path]-includes them
    next to a path dependency on the scratch copy of elvis-core.  Returns elvis-core's functions merged with the shim's."""
    fns, enums, src_root = load('elvis-core')
    files = [os.path.join(REPO, 'sim', 'elvis', 'src', m) for m in modules]

    def prepare(scratch, core_dst):
        d = os.path.join(scratch, name)
        os.makedirs(os.path.join(d, 'src'))
        with open(os.path.join(d, 'Cargo.toml'), 'w') as f:
            f.write('[package]\nname = "%s"\nversion = "0.0.0"\nedition = "2021"\n\n[dependencies]\nelvis-core = { path = "../elvis-core" }\n'
                    'tokio = { version = "1.23.0", features = ["rt", "rt-multi-thread", "time", "macros", "signal", "sync"] }\nasync-trait = "0.1.68"\ntracing = "0.1.37"\n\n[workspace]\n' % name)
        lib = ['#![allow(unused, dead_code)]']
        for m, fp in zip(modules, files):
            dst = os.path.join(d, 'src', os.path.basename(m))
            shutil.copy(fp, dst)
            lib.append(f'pub mod {os.path.splitext(os.path.basename(m))[0]};')
        with open(os.path.join(d, 'src', 'lib.rs'), 'w') as f:
            f.write('\n'.join(lib) + '\n')
        # elvis-core must not declare its own workspace when used as a path dependency of the shim's workspace root
        ct = os.path.join(core_dst, 'Cargo.toml')
        s = open(ct).read().replace('\n[workspace]\n', '\n')
        open(ct, 'w').write(s)
        shutil.copy(os.path.join(REPO, 'sim', 'Cargo.lock'), os.path.join(d, 'Cargo.lock'))
        return d

    text, shim_root = dump_mir('elvis-core', shim={'prepare': prepare, 'hash_files': files, 'name': name, 'modules': list(modules)})
    sf = core.parse_mir(text)
    senums = core.parse_enums(os.path.join(shim_root, 'src'))
    merged = dict(fns)
    for k, v in sf.items():
        v.root = shim_root
        merged['shim::' + k if k in merged else k] = v
    en = dict(enums)
    en.update(senums)
    return merged, en, src_root, shim_root
