"""Dump MIR from /repo's current working tree (scratch copy, nightly rustc) and build an executor."""
import hashlib, os, pickle, re, shutil, subprocess, sys, time
from . import core, models, msgmodel

VERIF = os.path.dirname(os.path.dirname(os.path.abspath(__file__)))
REPO = os.environ.get('VERIF_REPO', '/repo')
CACHE = os.path.join(VERIF, '.cache')


def _tree_hash(root, extra=''):
    h = hashlib.sha256(extra.encode())
    for dp, dn, fn in sorted(os.walk(root)):
        dn.sort()
        if 'target' in dn:
            dn.remove('target')
        for n in sorted(fn):
            if n.endswith('.rs') or n == 'Cargo.toml':
                p = os.path.join(dp, n)
                h.update(p[len(root):].encode())
                h.update(open(p, 'rb').read())
    return h.hexdigest()[:20]


def dump_mir(crate='elvis-core', features=None, shim=None):
    """returns (mir_text, src_root).  Regenerated whenever any source file changed (content hash)."""
    src = os.path.join(REPO, 'sim', crate)
    key = _tree_hash(src, (features or '') + repr(shim))
    if shim:
        for extra in shim.get('hash_files', []):
            key = hashlib.sha256((key + open(extra).read()).encode()).hexdigest()[:20]
    mdir = os.path.join(CACHE, 'mir')
    os.makedirs(mdir, exist_ok=True)
    out = os.path.join(mdir, f'{crate}-{key}.mir')
    srcsnap = os.path.join(mdir, f'{crate}-{key}.src')
    if os.path.exists(out) and os.path.exists(srcsnap):
        return open(out).read(), srcsnap
    scratch = os.path.join(os.environ.get('VERIF_SCRATCH', '/tmp/elvis-verif'), f'mir-{crate}.{os.getpid()}')
    shutil.rmtree(scratch, ignore_errors=True)
    os.makedirs(scratch)
    try:
        dst = os.path.join(scratch, crate)
        shutil.copytree(src, dst, ignore=shutil.ignore_patterns('target'))
        shutil.copy(os.path.join(REPO, 'sim', 'Cargo.lock'), os.path.join(dst, 'Cargo.lock'))
        with open(os.path.join(dst, 'Cargo.toml'), 'a') as f:
            f.write('\n[workspace]\n')
        build_dir = dst
        if shim:
            build_dir = shim['prepare'](scratch, dst)
        env = dict(os.environ)
        env['CARGO_NET_OFFLINE'] = 'true'
        env['CARGO_TARGET_DIR'] = os.path.join(CACHE, 'mir-target')
        cmd = ['cargo', '+nightly', 'rustc', '--offline', '--lib']
        if features:
            cmd += ['--features', features]
        cmd += ['--', '-Zunpretty=mir', '-C', 'debug-assertions=off', '-C', 'overflow-checks=on']
        p = subprocess.run(cmd, cwd=build_dir, env=env, capture_output=True, text=True)
        if p.returncode != 0 or len(p.stdout) < 1000:
            raise RuntimeError('MIR dump failed:\n' + p.stderr[-3000:])
        tmp = out + f'.tmp{os.getpid()}'
        with open(tmp, 'w') as f:
            f.write(p.stdout)
        os.replace(tmp, out)
        shutil.rmtree(srcsnap, ignore_errors=True)
        shutil.copytree(build_dir, srcsnap, ignore=shutil.ignore_patterns('target'))
        return p.stdout, srcsnap
    finally:
        shutil.rmtree(scratch, ignore_errors=True)


_parsed = {}


def load(crate='elvis-core', features=None, shim=None):
    text, src_root = dump_mir(crate, features, shim)
    k = (crate, features, hashlib.sha256(text.encode()).hexdigest())
    if k not in _parsed:
        pk = os.path.join(CACHE, 'mir', f'{crate}-{k[2][:20]}.pickle')
        if os.path.exists(pk):
            try:
                _parsed[k] = pickle.load(open(pk, 'rb'))
            except Exception:
                pass
        if k not in _parsed:
            fns = core.parse_mir(text)
            enums = core.parse_enums(os.path.join(src_root, 'src'))
            _parsed[k] = (fns, enums)
            with open(pk + '.tmp', 'wb') as f:
                pickle.dump(_parsed[k], f)
            os.replace(pk + '.tmp', pk)
    fns, enums = _parsed[k]
    return fns, enums, src_root


def new_exec(fns, enums, src_root, message_model=True):
    ex = core.Exec(fns, enums, src_root)
    if message_model:
        msgmodel.install(ex)
    models.install(ex)
    return ex
