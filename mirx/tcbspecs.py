"""Specs over the real TCB MIR.  A *unit* = (situation, target endpoint, concrete ACK/RST/SYN/FIN flag class): the pair of
endpoints is driven into the situation through the public API with symbolic ISNs / lengths, then one fully symbolic
forged segment (seq, ack, window, remaining flags, text length) is injected at the target, followed by segments() and
receive().  Every state explored is therefore reachable from Tcb::open / segment_arrives_listen, and every
counterexample is a concrete API call sequence that is replayed natively."""
import os, re, sys, time, json, traceback
import z3
from .core import Int, Agg, Ref, ListV, Panic, Unsupported, PathEnd, sym_int, mk_bool, b_and, b_or, b_not, clone_val
from . import loader
from .tcbsim import (Sim, PEER, model_eval, predict_lines, render_rust, msg_digest, Fields, TcbView, HdrView, seg_parts,
                     STATES, FIN, SYN, RST, PSH, ACK, URG, normalize)
from .msgmodel import MsgV

SUMMARIZE = re.compile(r'modular_cmp::mod_|^(tcp_parsing::)?Control::(syn|ack|fin|rst|psh|urg|bit)$')

U32 = lambda v: Int(32, v)
U64 = lambda v: Int(64, v)


# ------------------------------------------------------------------------------ situations

class P:
    """symbolic parameters shared by the situations"""

    def __init__(self, ex, tag='', mtu=None, issA=None, issB=None):
        self.ex = ex
        self.issA = issA if issA is not None else sym_int('issA' + tag, 32)
        self.issB = issB if issB is not None else sym_int('issB' + tag, 32)
        if mtu is None:
            self.mtu = Int(16, 1500)
        else:
            self.mtu = mtu
        self.n = None

    def data_len(self, ex, name='n', hi=None):
        """symbolic write size 1..=hi (default: at most two full segments)"""
        mss = self.mtu.v - 50 if self.mtu.conc else 1450
        hi = hi if hi is not None else 2 * mss
        if getattr(self, 'concrete_data', False):
            return Int(64, min(hi, mss + 550))       # relational (shift) units: concrete write size, symbolic ISNs and shifts
        n = sym_int(name, 64)
        ex.assume(ex.binop('Ge', n, U64(1), False))
        ex.assume(ex.binop('Le', n, U64(hi), False))
        return n


def pump(sim, frm, to, p):
    """emit frm's pending segments and deliver all of them, in order, to `to`"""
    for sr in sim.segments(frm):
        if not sim.alive(to):
            sim.listen_arrives(to, sr, p.issB if to == 'B' else p.issA, p.mtu)
        else:
            sim.arrives(to, sr)


def handshake(sim, p):
    sim.open('A', p.issA, p.mtu)
    pump(sim, 'A', 'B', p)      # SYN -> B (LISTEN): SYN-RECEIVED
    pump(sim, 'B', 'A', p)      # SYN-ACK -> A: ESTABLISHED
    pump(sim, 'A', 'B', p)      # ACK -> B: ESTABLISHED


def sit_synsent(sim, p):
    sim.open('A', p.issA, p.mtu)
    sim.segments('A')


def sit_synsent_data(sim, p):
    """active opener that already has application data queued before the handshake completes"""
    sim.open('A', p.issA, p.mtu)
    sim.send('A', p.data_len(sim.ex))
    sim.segments('A')


def sit_synrcvd(sim, p):
    sim.open('A', p.issA, p.mtu)
    pump(sim, 'A', 'B', p)
    sim.segments('B')


def sit_simopen(sim, p):
    sim.open('A', p.issA, p.mtu)
    sim.open('B', p.issB, p.mtu)
    sa = sim.segments('A')
    sb = sim.segments('B')
    for sr in sb:
        sim.arrives('A', sr)
    for sr in sa:
        sim.arrives('B', sr)
    sim.segments('A')


def sit_estab(sim, p):
    handshake(sim, p)


def sit_estab_inflight(sim, p):
    handshake(sim, p)
    sim.send('A', p.data_len(sim.ex))
    sim.segments('A')


def sit_estab_wndlimited(sim, p):
    """the peer advertises a small window w (as a receiver with a small buffer would); A has more to send than fits: w bytes in
    flight, the rest queued"""
    handshake(sim, p)
    ex = sim.ex
    # concrete small window (the forged segment stays fully symbolic): symbolic w and n made some feasibility queries time out
    w = Int(16, 1000)
    # one byte goes over first so that the peer's next ACK acknowledges something new (the implementation takes window
    # updates only from ACKs that advance SND.UNA); that ACK carries the small window
    sim.send('A', U64(1))
    pump(sim, 'A', 'B', p)
    sim.segments('B')
    vb = sim.view('B')
    sim.arrives('A', sim.forged('B', vb.snd('nxt'), vb.rcv('nxt'), Int(8, ACK), w))
    if not (ex.binop('Eq', sim.view('A').snd('wnd'), w, False) is True):
        raise Unsupported('window-limited situation: the window update was not taken')
    n = U64(1700)            # 1000 bytes go out (window), 700 stay queued
    sim.send('A', n)
    sim.segments('A')


def sit_estab_unread(sim, p):
    handshake(sim, p)
    sim.send('A', p.data_len(sim.ex))
    pump(sim, 'A', 'B', p)
    sim.segments('B')


def sit_estab_ooo(sim, p):
    """B holds the second of two segments in its out-of-order heap"""
    handshake(sim, p)
    mss = p.mtu.v - 50
    sim.send('A', U64(mss + 200))
    srs = sim.segments('A')
    sim.arrives('B', srs[1])
    sim.segments('B')


def sit_finwait1(sim, p):
    handshake(sim, p)
    sim.close('A')
    sim.segments('A')


def sit_finwait2(sim, p):
    handshake(sim, p)
    sim.close('A')
    pump(sim, 'A', 'B', p)
    pump(sim, 'B', 'A', p)


def sit_closewait(sim, p):
    sit_finwait2(sim, p)


def sit_lastack(sim, p):
    sit_finwait2(sim, p)
    sim.close('B')
    sim.segments('B')


def sit_closing(sim, p):
    handshake(sim, p)
    sim.close('A')
    sim.close('B')
    sa = sim.segments('A')
    sb = sim.segments('B')
    for sr in sb:
        sim.arrives('A', sr)
    sim.segments('A')


def sit_timewait(sim, p):
    sit_finwait2(sim, p)
    sim.close('B')
    pump(sim, 'B', 'A', p)
    sim.segments('A')


SITUATIONS = {
    # name: (builder, [targets], expected state of each target)
    'synsent': (sit_synsent, ['A'], {'A': 'SynSent'}),
    'synsent_data': (sit_synsent_data, ['A'], {'A': 'SynSent'}),
    'synrcvd': (sit_synrcvd, ['B'], {'B': 'SynReceived'}),
    'simopen': (sit_simopen, ['A'], {'A': 'SynReceived'}),
    'estab': (sit_estab, ['A', 'B'], {'A': 'Established', 'B': 'Established'}),
    'estab_inflight': (sit_estab_inflight, ['A', 'B'], {'A': 'Established', 'B': 'Established'}),
    'estab_wndlimited': (sit_estab_wndlimited, ['A'], {'A': 'Established'}),
    'estab_unread': (sit_estab_unread, ['B'], {'B': 'Established'}),
    'estab_ooo': (sit_estab_ooo, ['B'], {'B': 'Established'}),
    'finwait1': (sit_finwait1, ['A'], {'A': 'FinWait1'}),
    'finwait2': (sit_finwait2, ['A'], {'A': 'FinWait2'}),
    'closewait': (sit_closewait, ['B'], {'B': 'CloseWait'}),
    'lastack': (sit_lastack, ['B'], {'B': 'LastAck'}),
    'closing': (sit_closing, ['A'], {'A': 'Closing'}),
    'timewait': (sit_timewait, ['A'], {'A': 'TimeWait'}),
}

QUICK_SITUATIONS = list(SITUATIONS)


def all_units(situations=None, fin_split=True):
    units = []
    for s in (situations or QUICK_SITUATIONS):
        for tgt in SITUATIONS[s][1]:
            for cls in range(16 if fin_split else 8):
                u = {'situation': s, 'target': tgt, 'cls': cls}
                if not fin_split:
                    u['fin_sym'] = True
                units.append(u)
    if situations is None and fin_split:
        # endpoints without a TCB: all 64 flag combinations symbolic in one unit each
        units.append({'nostate': 'closed', 'situation': 'closed-state', 'target': 'B', 'cls': 0})
        units.append({'nostate': 'listen', 'situation': 'listen-state', 'target': 'B', 'cls': 0})
    return units


# ------------------------------------------------------------------------------ RFC 9293 figure 5 edges (segment-arrival events)

# (from, to): set of flags that must be present among the processed segments
EDGES = {
    ('SynSent', 'SynReceived'): {'SYN'},
    ('SynSent', 'Established'): {'SYN', 'ACK'},
    ('SynReceived', 'Established'): {'ACK'},
    ('SynReceived', 'CloseWait'): {'FIN'},          # 3.10.7.4 eighth step: SYN-RECEIVED / ESTABLISHED -> CLOSE-WAIT
    ('Established', 'CloseWait'): {'FIN'},
    ('FinWait1', 'FinWait2'): {'ACK'},
    ('FinWait1', 'Closing'): {'FIN'},
    ('FinWait1', 'TimeWait'): {'FIN', 'ACK'},
    ('FinWait2', 'TimeWait'): {'FIN'},
    ('Closing', 'TimeWait'): {'ACK'},
}
# deletion of the TCB on segment arrival: RST in any state, or the ACK of our FIN in LAST-ACK
DELETE = {s: {'RST'} for s in STATES}


def reachable(before, flags):
    """states reachable from `before` along figure-5 edges whose required flags are all in `flags`"""
    seen = {before}
    todo = [before]
    while todo:
        s = todo.pop()
        for (a, b), need in EDGES.items():
            if a == s and need <= flags and b not in seen:
                seen.add(b)
                todo.append(b)
    return seen


def may_delete(states, flags):
    for s in states:
        if 'RST' in flags:
            return True
        if s == 'LastAck' and 'ACK' in flags:
            return True
    return False


# ------------------------------------------------------------------------------ the forged-segment unit

def flags_of(cls):
    fl = set()
    if cls & 1:
        fl.add('ACK')
    if cls & 2:
        fl.add('RST')
    if cls & 4:
        fl.add('SYN')
    if cls & 8:
        fl.add('FIN')
    return fl


def seg_flagset(F, seg):
    hv, _ = seg_parts(F, seg)
    c = hv.ctl
    if not c.conc:
        return None
    fl = set()
    for bit, nm in ((ACK, 'ACK'), (RST, 'RST'), (SYN, 'SYN'), (FIN, 'FIN')):
        if c.v & bit:
            fl.add(nm)
    return fl


def forged_scenario(ex, F, unit, tier, holder, p=None, shift=None, key='sim'):
    """drive the pair into the unit's situation and inject the forged segment.  `shift` = (d_seq, d_ack) added to the forged
    segment's sequence / acknowledgment numbers (used by the relational C12 check)."""
    sname, target, cls = unit['situation'], unit['target'], unit['cls']
    builder, _, expect = SITUATIONS[sname]
    flags = flags_of(cls)
    peer = PEER[target]
    sim = Sim(ex, F)
    holder[key] = sim
    sim.record = True
    p = p or P(ex)
    builder(sim, p)
    if sim.view(target).state_name != expect[target]:
        # the canonical, loss-free, in-order history did not bring the endpoint into the expected state for SOME initial sequence
        # numbers: on the unchanged tree this never happens; it is a violation of C03 (open/synchronise/close) and of C12 (ISN independence)
        sim.info = {'pre': {'state': sim.view(target).state_name}, 'flags': set(), 'stage': 'situation', 'p': p}
        raise ScenarioBroken(sim, f'the loss-free in-order history "{sname}" left {target} in {sim.view(target).state_name} instead of {expect[target]} for some initial sequence numbers')
    pre = _snapshot_obs(sim, target)
    # the forged segment: ACK/RST/SYN/FIN fixed by the unit, PSH/URG symbolic, everything else symbolic
    rest = sym_int('f_pu', 8)
    symmask = PSH | URG | (FIN if unit.get('fin_sym') else 0)
    ex.assume(ex.binop('Eq', ex.binop('BitAnd', rest, Int(8, 0xff ^ symmask), False), Int(8, 0), False))
    base = (ACK if 'ACK' in flags else 0) | (RST if 'RST' in flags else 0) | (SYN if 'SYN' in flags else 0) | (FIN if 'FIN' in flags else 0)
    ctl = ex.binop('BitOr', rest, Int(8, base), False)
    tl = sym_int('f_len', 64)
    mss = p.mtu.v - 50
    ex.assume(ex.binop('Le', tl, U64(mss), False))
    fseq, fack = sym_int('f_seq', 32), sym_int('f_ack', 32)
    if shift is not None:
        fseq = ex.binop('Add', fseq, shift[0], False)
        fack = ex.binop('Add', fack, shift[1], False)
    fs = sim.forged(peer, fseq, fack, ctl, sym_int('f_wnd', 16), 'X', U64(0), tl)
    sim.info = {'pre': pre, 'flags': flags, 'forged': fs, 'stage': 'arrives', 'p': p}
    r = sim.arrives(target, fs)
    sim.info['arr'] = r
    sim.info['post'] = _snapshot_obs(sim, target)
    sim.info['stage'] = 'segments'
    if r == 'Ok':
        out = sim.segments(target)
        sim.info['emitted'] = out
        sim.info['post2'] = _snapshot_obs(sim, target)
        sim.info['stage'] = 'receive'
        sim.receive(target)
        if tier == 'thorough' or unit['situation'] in TIMER_SITUATIONS_QUICK:
            sim.info['stage'] = 'advance_time'
            dt = sym_int('dt', 64)
            ex.assume(ex.binop('Le', dt, U64(5_000_000_000), False))
            sim.info['dt'] = dt
            sim.info['adv'] = sim.advance_time(target, dt)
            sim.info['stage'] = 'segments2'
            sim.info['emitted2'] = sim.segments(target)
            sim.info['post3'] = _snapshot_obs(sim, target)
    sim.info['stage'] = 'done'
    return sim



# situations whose quick units also get the timer follow-up (advance_time, segments): data in flight on the sending side
TIMER_SITUATIONS_QUICK = ('estab_inflight',)
RETRANSMISSION_TIMEOUT_NS = 100_000_000       # the crate's RETRANSMISSION_TIMEOUT (100 ms); advance_time(dt) with dt above it expires the timer


class ScenarioBroken(Exception):
    def __init__(self, sim, desc):
        Exception.__init__(self, desc)
        self.sim, self.desc = sim, desc


class UnitResult:
    def __init__(self, unit):
        self.unit = unit
        self.paths = 0
        self.stats = {}
        self.violations = []       # dicts: key, desc, klass, rust, predicted
        self.unsupported = []
        self.transitions = set()
        self.obligations = 0
        self.wall = 0.0
        self.samples = []
        self.validation = []       # [{rust, predicted}] traces to be compared with the native implementation
        self.encoded = []
        self.models = []


def _snapshot_obs(sim, name):
    v = sim.view(name)
    return {
        'state': v.state_name,
        'snd': {k: v.snd(k) for k in ('una', 'nxt', 'wnd', 'wl1', 'wl2', 'iss')},
        'rcv': {k: v.rcv(k) for k in ('irs', 'nxt', 'wnd')},
        'in_text': MsgV(v.in_text.ext),
        'out_text': MsgV(v.out_text.ext),
        'retx': [clone_val(x) for x in v.retransmit.items],
        'heap_flags': [seg_flagset(sim.F, s) for s in v.in_segments.items],
    }


def _valid(ex, cond, under=None):
    """cond holds on every model of the path condition (and of `under`, if given)?  returns (True, None) or (False, model)"""
    cond = mk_bool(cond)
    if cond is True:
        return True, None
    extra = [] if under is None or under is True else [under]
    if under is False:
        return True, None
    if cond is False:
        okk, m = ex.check_sat(*extra)
        return (not okk), m
    sat, m = ex.check_sat(z3.Not(cond), *extra)
    return (not sat), m


def run_forged_unit(ex, F, unit, res, tier='quick', known_classes=None, deadline=None):
    sname, target, cls = unit['situation'], unit['target'], unit['cls']
    builder, _, expect = SITUATIONS[sname]
    flags = flags_of(cls)
    peer = PEER[target]

    holder = {}

    def body(ex):
        try:
            return forged_scenario(ex, F, unit, tier, holder)
        except ScenarioBroken as b:
            res.violations.append(mk_violation(ex, b.sim, unit, 'c03:c12:canonical-history-wrong-state', b.desc, 'c03'))
            raise PathEnd()

    def on_end(ex, kind, r):
        res.paths += 1
        sim = holder.get('sim')
        if sim is None or not hasattr(sim, 'info'):
            if kind == 'panic':
                res.unsupported.append(f'panic while building situation {sname}: {r.msg} in {r.site}')
            return
        check_path(ex, F, unit, sim, kind, r, res, known_classes)

    ex.explore(body, on_end, deadline=deadline)


def mk_violation(ex, sim, unit, role, desc, klass, model=None):
    """package a violating path: concrete model, native replay source, predicted native output"""
    if model is None:
        okk, model = ex.check_sat()
    ev = model_eval(model)
    key = f'mirx:tcb:{role}:sit={unit["situation"]}:target={unit["target"]}:state={sim.info["pre"]["state"]}:class={klass}'
    return {'key': key, 'desc': desc, 'klass': klass, 'rust': render_rust(sim, ev, '@@NAME@@', prelude=False), 'predicted': predict_lines(sim, ev),
            'unit': unit, 'nops': len(sim.ops)}


# ---- characterisations of the defects recorded in known_findings.json (z3 predicates over the path's symbols).
# A panic / violation is reported under a known class only if EVERY model of the path lies inside the predicate;
# otherwise a model outside it is produced and reported as a new violation.

def _seq_off(ex, a, b):
    """(a - b) mod 2^32 as a 64-bit Int"""
    return ex.cast(ex.binop('Sub', a, b, False), 'u64', 'IntToInt')


def known_class_for_panic(ex, sim, site, msg):
    """returns (class name, predicate) candidates for a panic at `site`"""
    info = sim.info
    pre = info['pre']
    fs = info['forged']
    _, frm, seq, ack, ctl, wnd, tsrc, toff, tlen = fs
    flags = info['flags']
    cands = []
    if 'process_segment' in site and 'assertion failed' in msg and 'is_in_rcv_window' in msg:
        # text whose first and last sequence numbers are both outside the window although the segment passed the
        # acceptability test: it straddles the whole window, or the state is SYN-SENT / CLOSING where no test is made
        cands.append(('text-accept-assert', True))
    if 'process_segment' in site and 'overflow' in msg and '-' in msg:
        cands.append(('text-accept-arith-underflow', True))
    if 'segments' in site and 'overflow' in msg and '-' in msg:
        cands.append(('send-window-underflow', True))
    return cands


def check_path(ex, F, unit, sim, kind, r, res, known_classes):
    info = sim.info
    pre = info['pre']
    flags = set(info['flags'])
    target = unit['target']
    # ---------------- (a) no panic
    res.obligations += 1
    if kind == 'panic':
        site = re.sub(r'<impl at [^>]*>', 'Tcb', r.site)
        role = f'panic:{site.split("::")[-1]}:{_short(r.msg)}:stage={info["stage"]}'
        klass = 'other'
        for (nm, pred) in known_class_for_panic(ex, sim, r.site, r.msg):
            klass = nm
        res.violations.append(mk_violation(ex, sim, unit, role, f'panic in {r.site}: {r.msg} (stage {info["stage"]})', klass))
        return
    post = info['post']
    # ---------------- C03: the state change is an edge (or chain of edges) of RFC 9293 figure 5 for the flags that were processed
    proc_flags = set(flags)
    for hf in pre['heap_flags']:
        if hf is None:
            proc_flags |= {'ACK', 'RST', 'SYN', 'FIN'}
        else:
            proc_flags |= hf
    res.obligations += 1
    reach = reachable(pre['state'], proc_flags)
    res.transitions.add((pre['state'], ''.join(sorted(f[0] for f in flags)), post['state'], info['arr']))
    # transitions that RFC 9293 ties to "our SYN / FIN has been acknowledged" need SEG.ACK = SND.NXT (everything sent, including the
    # SYN/FIN, is acknowledged); checked when the forged segment is the only one processed (empty out-of-order queue)
    if not pre['heap_flags'] and 'ACK' in flags and 'RST' not in flags:
        fack = info['forged'][3]
        needs_full_ack = None
        if info['arr'] == 'Close' and pre['state'] == 'LastAck':
            needs_full_ack = 'LAST-ACK was released'
        elif info['arr'] == 'Ok' and (pre['state'], post['state']) in (('FinWait1', 'FinWait2'), ('FinWait1', 'TimeWait'), ('Closing', 'TimeWait')):
            needs_full_ack = f'{pre["state"]} -> {post["state"]}'
        elif info['arr'] == 'Ok' and pre['state'] == 'SynReceived' and post['state'] == 'Established':
            # (SYN-RECEIVED -> CLOSE-WAIT on a FIN is an RFC 9293 edge of its own - eighth step - and does not require our SYN to be acknowledged)
            needs_full_ack = f'{pre["state"]} -> {post["state"]}'
        if needs_full_ack:
            res.obligations += 1
            if pre['state'] == 'SynReceived':
                # our SYN is acknowledged: SND.UNA < SEG.ACK <= SND.NXT
                d = ex.binop('Sub', fack, pre['snd']['una'], False)
                cond = b_and(ex.binop('Ge', d, U32(1), False), ex.binop('Le', d, ex.binop('Sub', pre['snd']['nxt'], pre['snd']['una'], False), False))
            else:
                cond = ex.binop('Eq', fack, pre['snd']['nxt'], False)
            okv, m = _valid(ex, cond)
            if not okv:
                res.violations.append(mk_violation(ex, sim, unit, f'c03:transition-without-acknowledgment-of-syn-or-fin:{pre["state"]}',
                                                   f'{needs_full_ack} by a segment whose acknowledgment number does not cover our SYN/FIN (SEG.ACK != SND.NXT)', 'c03', model=m))
                return
    if info['arr'] == 'Close':
        if not may_delete(reach, proc_flags):
            res.violations.append(mk_violation(ex, sim, unit, f'c03:delete-without-rst-or-final-ack:{pre["state"]}',
                                               f'TCB deleted from {pre["state"]} by a segment with flags {sorted(flags)}', 'c03'))
            return
    elif post['state'] not in reach:
        res.violations.append(mk_violation(ex, sim, unit, f'c03:illegal-transition:{pre["state"]}->{post["state"]}',
                                           f'{pre["state"]} -> {post["state"]} on flags {sorted(flags)} is not an RFC 9293 figure-5 transition', 'c03'))
        return
    # ---------------- (b) unacceptable segments change nothing
    _, frm, seq, ack, ctl, wnd, tsrc, toff, tlen = info['forged']
    seglen = ex.binop('Add', tlen, U64((1 if 'SYN' in flags else 0) + (1 if 'FIN' in flags else 0)), False)
    if pre['state'] == 'SynSent':
        unacceptable = ('SYN' not in flags and 'RST' not in flags)
    else:
        # entirely outside [RCV.NXT-1, RCV.NXT+RCV.WND): offsets relative to RCV.NXT-1 (the implementation follows the
        # revised validation of draft-gont-tcpm-tcp-seq-validation, which admits RCV.NXT-1)
        off = _seq_off(ex, seq, ex.binop('Sub', pre['rcv']['nxt'], U32(1), False))
        W = ex.binop('Add', ex.cast(pre['rcv']['wnd'], 'u64', 'IntToInt'), U64(1), False)
        span = b_ite64(ex, ex.binop('Eq', seglen, U64(0), False), U64(1), seglen)
        endo = ex.binop('Add', off, span, False)
        unacceptable = b_and(ex.binop('Ge', off, W, False), ex.binop('Le', endo, U64(1 << 32), False))
    res.obligations += 1
    if unacceptable is not False:
        same = b_and(post['state'] == pre['state'], info['arr'] == 'Ok',
                     *[ex.binop('Eq', post['snd'][k], pre['snd'][k], False) for k in pre['snd']],
                     *[ex.binop('Eq', post['rcv'][k], pre['rcv'][k], False) for k in pre['rcv']],
                     ex.binop('Eq', post['in_text'].length(ex), pre['in_text'].length(ex), False),
                     ex.binop('Eq', post['out_text'].length(ex), pre['out_text'].length(ex), False),
                     len(post['retx']) == len(pre['retx']))
        bad = b_and(unacceptable, b_not(same))
        if bad is not False:
            sat, m = ex.check_sat(bad)
            if sat:
                res.violations.append(mk_violation(ex, sim, unit, f'c17b:unacceptable-segment-had-effect:{pre["state"]}',
                                                   f'a segment entirely outside the receive window (or without SYN/RST in SYN-SENT) changed the connection in {pre["state"]}',
                                                   'c17b', model=m))
                return
    # ---------------- sender mapping (C01): everything between SND.UNA and SND.NXT is still on the retransmission queue
    res.obligations += 1
    if info['arr'] == 'Ok':
        # only for acknowledgments a conforming peer can send: SND.UNA <= SEG.ACK <= SND.NXT (anything else is not produced by
        # loss, duplication, reordering or delay of legitimate traffic, which is what C01 quantifies over)
        conforming_ack = True
        if 'ACK' in flags:
            _, _, _, fack, _, _, _, _, _ = info['forged']
            conforming_ack = ex.binop('Le', ex.binop('Sub', fack, pre['snd']['una'], False),
                                      ex.binop('Sub', pre['snd']['nxt'], pre['snd']['una'], False), False)
        bad = queue_covers_unacked(ex, F, post, under=conforming_ack)
        if bad is not None:
            what, m = bad
            res.violations.append(mk_violation(ex, sim, unit, f'c01:retransmission-queue-does-not-cover-unacked:{pre["state"]}',
                                               'after the segment the retransmission queue no longer holds exactly the unacknowledged sequence space: ' + what, 'c01', model=m))
    # ---------------- (C01, liveness step) whatever is still unacknowledged is retransmitted once the retransmission timer has expired:
    # after advance_time(dt > RTO) the next segments() contains a segment that covers SND.UNA
    if 'post3' in info and info.get('adv') != 'CloseConnection' and info['arr'] == 'Ok' and unit['situation'] in TIMER_SITUATIONS_QUICK:
        # (stated for the situations with data in flight on the sending side, where it has been exercised on the unchanged tree in both tiers)
        p3 = info['post3']
        res.obligations += 1
        conforming_ack = True
        if 'ACK' in flags:
            _, _, _, fack3, _, _, _, _, _ = info['forged']
            conforming_ack = ex.binop('Le', ex.binop('Sub', fack3, pre['snd']['una'], False), ex.binop('Sub', pre['snd']['nxt'], pre['snd']['una'], False), False)
        una3, nxt3 = p3['snd']['una'], p3['snd']['nxt']
        covered = False
        for ref in info.get('emitted2', []):
            hv, txt = seg_parts(F, sim.seg_of(ref))
            bit = lambda sh: ex.cast(ex.binop('BitAnd', ex.binop('Shr', hv.ctl, Int(8, sh), False), Int(8, 1), False), 'u64', 'IntToInt')
            slen = ex.binop('Add', txt.length(ex), ex.binop('Add', bit(0), bit(1), False), False)      # text + FIN + SYN
            covered = b_or(covered, ex.binop('Lt', _seq_off(ex, una3, hv.seq), slen, False))
        expired = ex.binop('Gt', info['dt'], U64(RETRANSMISSION_TIMEOUT_NS), False)
        outstanding = b_not(ex.binop('Eq', una3, nxt3, False))
        sat, m = ex.check_sat(b_and(conforming_ack, expired, outstanding, b_not(covered)))
        if sat:
            res.violations.append(mk_violation(ex, sim, unit, f'c01:unacked-data-not-retransmitted-after-timeout:{pre["state"]}',
                                               'SND.UNA != SND.NXT and the retransmission timer expired, but the segments emitted next do not contain the segment that covers SND.UNA: '
                                               'the oldest unacknowledged data would never be sent again', 'c01', model=m))
            return
    # ---------------- (c0) "the window the peer last advertised": when an acknowledgment is accepted (SND.UNA advanced to SEG.ACK), RFC 9293
    # 3.10.7.4 makes SEG.WND the send window iff SND.WL1 < SEG.SEQ or (SND.WL1 = SEG.SEQ and SND.WL2 =< SEG.ACK).  Checked as a reference
    # rule of its own, because the right-edge obligation below takes SND.WND from the implementation
    if info['arr'] == 'Ok' and 'ACK' in flags and 'RST' not in flags and 'SYN' not in flags and pre['state'] in ('Established', 'FinWait1', 'FinWait2', 'CloseWait') and post['state'] == pre['state']:
        _, _, fseq_, fack_, _, fwnd_, _, _, _ = info['forged']
        res.obligations += 1
        lt = lambda a, b: b_and(b_not(ex.binop('Eq', a, b, False)), ex.binop('Lt', ex.binop('Sub', b, a, False), Int(32, 0x80000000), False))     # a < b on the sequence circle
        le = lambda a, b: ex.binop('Lt', ex.binop('Sub', b, a, False), Int(32, 0x80000000), False)
        accepted = b_and(lt(pre['snd']['una'], fack_), le(fack_, pre['snd']['nxt']), ex.binop('Eq', post['snd']['una'], fack_, False))
        should = b_or(lt(pre['snd']['wl1'], fseq_), b_and(ex.binop('Eq', pre['snd']['wl1'], fseq_, False), le(pre['snd']['wl2'], fack_)))
        bad = b_and(accepted, should, b_not(ex.binop('Eq', post['snd']['wnd'], fwnd_, False)))
        sat, m = ex.check_sat(bad)
        if sat:
            res.violations.append(mk_violation(ex, sim, unit, f'c17c:window-update-ignored:{pre["state"]}',
                                               'an accepted acknowledgment that carries the newest window information (SND.WL1 < SEG.SEQ, or SND.WL1 = SEG.SEQ and SND.WL2 =< SEG.ACK) did not update SND.WND: '
                                               'the endpoint keeps sending against a window the peer no longer advertises', 'c17c', model=m))
            return
    # ---------------- (c) new data never goes beyond the right edge SND.UNA + SND.WND of the window last advertised
    if 'post2' in info:
        p2 = info['post2']
        res.obligations += 1
        new = p2['retx'][len(post['retx']):]
        if new:
            ctl_in_flight = 0
            for tx in p2['retx']:
                hv, _ = seg_parts(F, tx.f[F.tx['segment']])
                if hv.ctl.conc and hv.ctl.v & (SYN | FIN):
                    ctl_in_flight += 1
            lim = ex.binop('Add', ex.cast(p2['snd']['wnd'], 'u64', 'IntToInt'), U64(ctl_in_flight), False)
            for tx in new:
                hv, txt = seg_parts(F, tx.f[F.tx['segment']])
                edge = ex.binop('Add', _seq_off(ex, hv.seq, p2['snd']['una']), txt.length(ex), False)
                okv, m = _valid(ex, ex.binop('Le', edge, lim, False))
                if not okv:
                    res.violations.append(mk_violation(ex, sim, unit, f'c17c:new-data-beyond-window:{pre["state"]}',
                                                       'segments() emitted new data beyond SND.UNA + SND.WND, the right edge of the window the peer last advertised', 'c17c', model=m))
                    return
    vsel = (res.paths * 7919 + unit['cls'] * 31 + int(os.environ.get('VERIF_SEED', '0') or 0)) % 23 == 0
    if len(res.samples) < 3 or (vsel and len(res.validation) < 2):
        okk, m = ex.check_sat()
        ev = model_eval(m)
        if vsel and len(res.validation) < 2:
            res.validation.append({'rust': render_rust(sim, ev, '@@NAME@@', prelude=False), 'predicted': predict_lines(sim, ev)})
    if len(res.samples) < 3:
        res.samples.append({'situation': unit['situation'], 'target': target, 'flags': sorted(flags), 'seq': ev(seq), 'ack': ev(ack), 'wnd': ev(wnd),
                            'text_len': ev(tlen), 'issA': ev(sim.info['p'].issA), 'issB': ev(sim.info['p'].issB),
                            'state': f'{pre["state"]}->{post["state"]}', 'result': info['arr']})


def queue_covers_unacked(ex, F, obs, under=None):
    """the retransmission queue covers the unacknowledged sequence space: it starts at or before SND.UNA (a partially
    acknowledged segment stays), its entries are contiguous (a SYN that was re-sent as SYN-ACK occupies the same sequence
    number as the SYN before it), and it ends at SND.NXT; it is empty only when SND.UNA == SND.NXT.
    returns None or (description, model)"""
    una, nxt = obs['snd']['una'], obs['snd']['nxt']
    q = obs['retx']
    if not q:
        okv, m = _valid(ex, ex.binop('Eq', una, nxt, False), under)
        return None if okv else ('queue is empty although SND.UNA != SND.NXT', m)
    pos = None
    prev_syn_seq = None
    for i, tx in enumerate(q):
        hv, txt = seg_parts(F, tx.f[F.tx['segment']])
        is_syn = bool(hv.ctl.conc and hv.ctl.v & SYN)
        ln = ex.binop('Add', ex.cast(txt.length(ex), 'u32', 'IntToInt'),
                      U32((1 if is_syn else 0) + (1 if hv.ctl.conc and hv.ctl.v & FIN else 0)), False)
        if i == 0:
            d = ex.binop('Sub', una, hv.seq, False)
            okv, m = _valid(ex, ex.binop('Lt', d, ln, False), under)
            if not okv:
                return ('SND.UNA does not lie inside the first queued segment', m)
        else:
            same_syn = is_syn and prev_syn_seq is not None and _valid(ex, ex.binop('Eq', hv.seq, prev_syn_seq, False), under)[0]
            if not same_syn:
                okv, m = _valid(ex, ex.binop('Eq', hv.seq, pos, False), under)
                if not okv:
                    return (f'queued segment {i} does not start where segment {i - 1} ends', m)
        prev_syn_seq = hv.seq if is_syn else None
        pos = ex.binop('Add', hv.seq, ln, False)
    okv, m = _valid(ex, ex.binop('Eq', pos, nxt, False), under)
    return None if okv else ('the last queued segment does not end at SND.NXT', m)


def b_ite64(ex, c, a, b):
    from .core import b_ite_int
    return b_ite_int(c, a, b)


def _short(msg):
    m = re.sub(r'[^A-Za-z0-9_ .()+\-*<>=!]', '', msg)
    m = re.sub(r'\s+', ' ', m).strip()
    return m[:70]


# ------------------------------------------------------------------------------ worker entry (multiprocessing)

_W = {}


def worker_init():
    fns, enums, src = loader.load()
    _W['fns'], _W['enums'], _W['src'] = fns, enums, src
    _W['F'] = Fields(src)


def new_exec():
    ex = loader.new_exec(_W['fns'], _W['enums'], _W['src'])
    ex.summarize_re = SUMMARIZE
    return ex


def worker_run(args):
    unit, tier, budget = args
    if not _W:
        worker_init()
    res = UnitResult(unit)
    t0 = time.time()
    ex = new_exec()
    try:
        if 'nostate' in unit:
            run_nostate_unit(ex, _W['F'], unit, res, tier=tier, deadline=t0 + budget)
        else:
            run_forged_unit(ex, _W['F'], unit, res, tier=tier, deadline=t0 + budget)
    except Unsupported as e:
        res.unsupported.append(f'{unit}: {e}')
    except Exception as e:
        res.unsupported.append(f'{unit}: internal error {e!r}: ' + traceback.format_exc()[-400:])
    res.wall = time.time() - t0
    res.stats = dict(ex.stats)
    res.encoded = sorted(ex.encoded)
    res.models = sorted(ex.models_used)
    return res


# ------------------------------------------------------------------------------ C12: relational shift invariance (2-safety)

def run_shift_unit(ex, F, unit, res, tier='quick', deadline=None):
    """run the unit's scenario twice in the same path: once with (issA, issB) and once with (issA+k1, issB+k2) and the forged
    segment's seq/ack shifted accordingly; every observable must be equal up to the same shifts."""
    target = unit['target']
    peer = PEER[target]
    holder = {}

    def body(ex):
        k = {'A': sym_int('k1', 32), 'B': sym_int('k2', 32)}
        p1 = P(ex)
        p1.concrete_data = True
        try:
            sim1 = forged_scenario(ex, F, unit, tier, holder, p=p1, key='sim1')
        except ScenarioBroken as b:
            res.violations.append(mk_violation(ex, b.sim, unit, 'c03:c12:canonical-history-wrong-state', b.desc, 'c12'))
            raise PathEnd()
        p2 = P(ex, issA=ex.binop('Add', p1.issA, k['A'], False), issB=ex.binop('Add', p1.issB, k['B'], False))
        p2.concrete_data = True
        holder['k'] = k
        # forged segment travels peer -> target: its seq lives in the peer's sequence space, its ack in the target's
        try:
            sim2 = forged_scenario(ex, F, unit, tier, holder, p=p2, shift=(k[peer], k[target]), key='sim2')
        except ScenarioBroken as b:
            res.violations.append(mk_violation(ex, b.sim, unit, 'c03:c12:canonical-history-wrong-state', b.desc + ' (run with shifted ISNs)', 'c12'))
            raise PathEnd()
        return (sim1, sim2)

    def on_end(ex, kind, r):
        res.paths += 1
        sim1, sim2 = holder.get('sim1'), holder.get('sim2')
        k = holder.get('k')
        if kind == 'panic':
            if sim2 is not None and hasattr(sim1, 'info') and sim1.info.get('stage') == 'done':
                res.obligations += 1
                res.violations.append(mk_violation(ex, sim2, unit, f'c12:panic-only-after-shift:{_short(r.msg)}',
                                                   f'the run with shifted ISNs panics ({r.msg} in {r.site}) although the unshifted run does not', 'c12'))
            return      # a panic in the unshifted run is C17's business
        diff = compare_shifted(ex, F, sim1, sim2, k, res)
        if diff is not None:
            what, model = diff
            v = mk_violation(ex, sim2, unit, f'c12:shift-variance:{what.split(":")[0]}', 'behaviour depends on absolute sequence numbers: ' + what, 'c12', model=model)
            # the replay runs BOTH histories natively; predicted lines of the unshifted run are attached for the reader
            ev = model_eval(model)
            v['rust'] = render_rust(sim1, ev, '@@NAME@@', prelude=False).replace('@@NAME@@', '@@NAME@@_base') + '\n' + v['rust']
            v['predicted_base'] = predict_lines(sim1, ev)
            res.violations.append(v)
            return
        if len(res.samples) < 2:
            okk, m = ex.check_sat()
            ev = model_eval(m)
            res.samples.append({'situation': unit['situation'], 'target': target, 'flags': sorted(sim1.info['flags']),
                                'issA': ev(sim1.info['p'].issA), 'issB': ev(sim1.info['p'].issB), 'k1': ev(k['A']), 'k2': ev(k['B']),
                                'state': f'{sim1.info["pre"]["state"]}->{sim1.info["post"]["state"]}'})

    ex.explore(body, on_end, deadline=deadline)


def _neq(ex, a, b):
    """satisfiable difference between two Ints under the path condition? returns model or None"""
    e = ex.binop('Eq', a, b, False)
    if e is True:
        return None
    if e is False:
        return ex.check_sat()[1]
    sat, m = ex.check_sat(b_not(e))
    return m if sat else None


def compare_shifted(ex, F, sim1, sim2, k, res):
    """returns None if run2 == shift(run1) on every observable, else (description, model)"""
    if len(sim1.ops) != len(sim2.ops):
        return ('ops:different number of API events', ex.check_sat()[1])
    for i, (o1, o2) in enumerate(zip(sim1.ops, sim2.ops)):
        kind, name = o1[0], o1[1]
        own, other = k[name], k[PEER[name]]
        r1, r2 = sim1.results[i], sim2.results[i]
        res.obligations += 1
        if kind in ('arrives', 'close', 'advance_time'):
            if r1 != r2:
                return (f'result:{kind} on {name} returns {r1} vs {r2}', ex.check_sat()[1])
        elif kind == 'listen':
            if (r1 if isinstance(r1, str) else r1[0]) != (r2 if isinstance(r2, str) else r2[0]):
                return (f'result:listen on {name} differs', ex.check_sat()[1])
        elif kind == 'receive':
            m = _neq(ex, r1.length(ex), r2.length(ex))
            if m is not None:
                return (f'data:receive on {name} returns a different number of bytes', m)
            if [e[0] for e in r1.ext] != [e[0] for e in r2.ext]:
                return (f'data:receive on {name} returns bytes of different provenance', ex.check_sat()[1])
            for (s1, o1_, l1), (s2, o2_, l2) in zip(r1.ext, r2.ext):
                m = _neq(ex, o1_, o2_) or _neq(ex, l1, l2)
                if m is not None:
                    return (f'data:receive on {name} returns different bytes', m)
        elif kind == 'segments':
            if len(r1) != len(r2):
                return (f'emit:segments() on {name} emits {len(r1)} vs {len(r2)} segments', ex.check_sat()[1])
            for sg1, sg2 in zip(r1, r2):
                h1, t1 = seg_parts(F, sg1)
                h2, t2 = seg_parts(F, sg2)
                m = _neq(ex, h1.ctl, h2.ctl)
                if m is not None:
                    return (f'emit:flags of a segment emitted by {name} differ', m)
                m = _neq(ex, h1.wnd, h2.wnd) or _neq(ex, t1.length(ex), t2.length(ex))
                if m is not None:
                    return (f'emit:window or length of a segment emitted by {name} differs', m)
                m = _neq(ex, ex.binop('Add', h1.seq, own, False), h2.seq)
                if m is not None:
                    return (f'emit:relative sequence number of a segment emitted by {name} differs', m)
                # the acknowledgment field is meaningful (and shifted by the peer's offset) only when ACK is set
                ackset = ex.binop('Ne', ex.binop('BitAnd', h1.ctl, Int(8, ACK), False), Int(8, 0), False)
                exp_ack = ex.binop('Add', h1.ack, other, False)
                ne = b_and(ackset, b_not(ex.binop('Eq', exp_ack, h2.ack, False)))
                if ne is not False:
                    sat, m = ex.check_sat(ne)
                    if sat:
                        return (f'emit:relative acknowledgment number of a segment emitted by {name} differs', m)
                if [e[0] for e in t1.ext] != [e[0] for e in t2.ext]:
                    return (f'emit:payload provenance of a segment emitted by {name} differs', ex.check_sat()[1])
                for (s1, a1, l1), (s2, a2, l2) in zip(t1.ext, t2.ext):
                    m = _neq(ex, a1, a2) or _neq(ex, l1, l2)
                    if m is not None:
                        return (f'emit:payload of a segment emitted by {name} differs', m)
    # final states
    for name in ('A', 'B'):
        if sim1.alive(name) != sim2.alive(name):
            return (f'state:{name} exists in one run only', ex.check_sat()[1])
        if not sim1.alive(name):
            continue
        v1, v2 = sim1.view(name), sim2.view(name)
        res.obligations += 1
        if v1.state_name != v2.state_name:
            return (f'state:{name} ends in {v1.state_name} vs {v2.state_name}', ex.check_sat()[1])
        own, other = k[name], k[PEER[name]]
        for fld in ('una', 'nxt'):
            m = _neq(ex, ex.binop('Add', v1.snd(fld), own, False), v2.snd(fld))
            if m is not None:
                return (f'state:SND.{fld.upper()} of {name} is not shifted consistently', m)
        m = _neq(ex, v1.snd('wnd'), v2.snd('wnd'))
        if m is not None:
            return (f'state:SND.WND of {name} differs', m)
        if v1.state_name != 'SynSent':
            m = _neq(ex, ex.binop('Add', v1.rcv('nxt'), other, False), v2.rcv('nxt'))
            if m is not None:
                return (f'state:RCV.NXT of {name} is not shifted consistently', m)
        if len(v1.retransmit.items) != len(v2.retransmit.items) or len(v1.in_segments.items) != len(v2.in_segments.items):
            return (f'state:queue lengths of {name} differ', ex.check_sat()[1])
        m = _neq(ex, v1.in_text.length(ex), v2.in_text.length(ex)) or _neq(ex, v1.out_text.length(ex), v2.out_text.length(ex))
        if m is not None:
            return (f'state:buffered text of {name} differs', m)
    return None


def worker_run_shift(args):
    unit, tier, budget = args
    if not _W:
        worker_init()
    res = UnitResult(unit)
    t0 = time.time()
    ex = new_exec()
    try:
        run_shift_unit(ex, _W['F'], unit, res, tier=tier, deadline=t0 + budget)
    except Unsupported as e:
        res.unsupported.append(f'{unit}: {e}')
    except Exception as e:
        res.unsupported.append(f'{unit}: internal error {e!r}: ' + traceback.format_exc()[-400:])
    res.wall = time.time() - t0
    res.stats = dict(ex.stats)
    res.encoded = sorted(ex.encoded)
    res.models = sorted(ex.models_used)
    return res


# ------------------------------------------------------------------------------ CLOSED / LISTEN: arbitrary segments (RFC 9293 3.10.7.1 / 3.10.7.2)

def run_nostate_unit(ex, F, unit, res, tier='quick', deadline=None):
    """fully symbolic segment (all 64 flag combinations symbolic) arriving for an endpoint without a TCB"""
    kind = unit['nostate']
    holder = {}

    def body(ex):
        sim = Sim(ex, F)
        holder['sim'] = sim
        sim.record = True
        p = P(ex)
        ctl = sym_int('f_ctl', 8)
        ex.assume(ex.binop('Lt', ctl, Int(8, 64), False))
        tl = sym_int('f_len', 64)
        ex.assume(ex.binop('Le', tl, U64(1450), False))
        seq, ack, wnd = sym_int('f_seq', 32), sym_int('f_ack', 32), sym_int('f_wnd', 16)
        fs = sim.forged('A', seq, ack, ctl, wnd, 'X', U64(0), tl)
        sim.info = {'pre': {'state': kind.upper()}, 'flags': set(), 'forged': fs, 'stage': kind, 'p': p}
        flag = lambda bit: ex.binop('Ne', ex.binop('BitAnd', ctl, Int(8, bit), False), Int(8, 0), False)
        f_rst, f_ack, f_syn = flag(RST), flag(ACK), flag(SYN)
        if kind == 'closed':
            resp = sim.closed_arrives('B', fs, ex.cast(tl, 'u32', 'IntToInt'))
            res.obligations += 1
            if resp is None:
                okv, m = _valid(ex, f_rst)
                if not okv:
                    return ('c17d:closed-no-reset-for-non-rst', 'CLOSED: a segment without RST was not answered with a reset', m, sim)
                return (None, None, None, sim)
            hv = HdrView(F, resp)
            conds = [b_not(f_rst), hv.flag(RST) if isinstance(hv.flag(RST), bool) else hv.flag(RST),
                     ex.binop('Eq', hv.src_port, Int(16, 80), False), ex.binop('Eq', hv.dst_port, Int(16, 1000), False)]
            # <SEQ=SEG.ACK><CTL=RST> if the segment has ACK, else <SEQ=0><ACK=SEG.SEQ+SEG.LEN><CTL=RST,ACK>
            with_ack = b_and(ex.binop('Eq', hv.seq, ack, False), b_not(hv.flag(ACK)))
            no_ack = b_and(ex.binop('Eq', hv.seq, U32(0), False), hv.flag(ACK), ex.binop('Eq', hv.ack, ex.binop('Add', seq, ex.cast(tl, 'u32', 'IntToInt'), False), False))
            conds.append(b_or(b_and(f_ack, with_ack), b_and(b_not(f_ack), no_ack)))
            okv, m = _valid(ex, b_and(*conds))
            if not okv:
                return ('c17d:closed-wrong-reset', 'CLOSED: the reset sent in response does not have the fields RFC 9293 3.10.7.1 prescribes', m, sim)
            return (None, None, None, sim)
        # LISTEN
        r, resp = sim.listen_arrives('B', fs, p.issB, p.mtu)
        res.obligations += 1
        if r == 'none':
            okv, m = _valid(ex, b_or(f_rst, b_and(b_not(f_ack), b_not(f_syn))))
            if not okv:
                return ('c03:listen-ignored-syn-or-ack', 'LISTEN: a segment with SYN (or with ACK) and without RST was silently ignored', m, sim)
        elif r == 'response':
            hv = HdrView(F, resp)
            okv, m = _valid(ex, b_and(b_not(f_rst), f_ack, hv.flag(RST), ex.binop('Eq', hv.seq, ack, False)))
            if not okv:
                return ('c03:listen-wrong-reset', 'LISTEN: a reset was sent although the segment has no ACK (or RST), or its SEQ is not SEG.ACK', m, sim)
        else:
            v = sim.view('B')
            conds = [b_not(f_rst), b_not(f_ack), f_syn, v.state_name == 'SynReceived',
                     ex.binop('Eq', v.rcv('irs'), seq, False), ex.binop('Eq', v.rcv('nxt'), ex.binop('Add', seq, U32(1), False), False),
                     ex.binop('Eq', v.snd('iss'), p.issB, False), ex.binop('Eq', v.snd('una'), p.issB, False),
                     ex.binop('Eq', v.snd('nxt'), ex.binop('Add', p.issB, U32(1), False), False), ex.binop('Eq', v.snd('wnd'), wnd, False)]
            okv, m = _valid(ex, b_and(*conds))
            if not okv:
                return ('c03:listen-wrong-tcb', 'LISTEN: the TCB created for a SYN is not SYN-RECEIVED with IRS=SEG.SEQ, RCV.NXT=SEG.SEQ+1, SND.UNA=ISS, SND.NXT=ISS+1, SND.WND=SEG.WND', m, sim)
            # the SYN-ACK that is emitted next
            out = sim.segments('B')
            res.obligations += 1
            if not out:
                return ('c03:listen-no-synack', 'LISTEN: no SYN-ACK is emitted for an accepted SYN', None, sim)
            hv, txt = seg_parts(F, sim.seg_of(out[0]))
            okv, m = _valid(ex, b_and(hv.flag(SYN), hv.flag(ACK), ex.binop('Eq', hv.seq, p.issB, False), ex.binop('Eq', hv.ack, ex.binop('Add', seq, U32(1), False), False)))
            if not okv:
                return ('c03:listen-wrong-synack', 'LISTEN: the first segment emitted for an accepted SYN is not <SEQ=ISS><ACK=SEG.SEQ+1><CTL=SYN,ACK>', m, sim)
            sim.receive('B')
        return (None, None, None, sim)

    def on_end(ex, kind_, r):
        res.paths += 1
        sim = holder.get('sim')
        if kind_ == 'panic':
            res.violations.append(mk_violation(ex, sim, unit, f'panic:{re.sub(r"<impl at [^>]*>", "Tcb", r.site).split("::")[-1]}:{_short(r.msg)}:stage={kind}',
                                               f'panic in {r.site}: {r.msg} ({kind.upper()} state)', 'panic'))
            return
        role, desc, m, sim = r
        if role is not None:
            res.violations.append(mk_violation(ex, sim, unit, role, desc, 'c17d' if role.startswith('c17') else 'c03', model=m))
        elif len(res.samples) < 2:
            okk, mm = ex.check_sat()
            ev = model_eval(mm)
            res.samples.append({'state': kind.upper(), 'ctl': ev(sim.info['forged'][4]), 'seq': ev(sim.info['forged'][2]), 'result': str(sim.results[0])[:40]})
        if role is None and len(res.validation) < 3 and res.paths % 2 == 1:
            okk, mm = ex.check_sat()
            ev = model_eval(mm)
            res.validation.append({'rust': render_rust(sim, ev, '@@NAME@@', prelude=False), 'predicted': predict_lines(sim, ev)})

    ex.explore(body, on_end, deadline=deadline)


def worker_run_nostate(args):
    unit, tier, budget = args
    if not _W:
        worker_init()
    res = UnitResult(unit)
    t0 = time.time()
    ex = new_exec()
    try:
        run_nostate_unit(ex, _W['F'], unit, res, tier=tier, deadline=t0 + budget)
    except Unsupported as e:
        res.unsupported.append(f'{unit}: {e}')
    except Exception as e:
        res.unsupported.append(f'{unit}: internal error {e!r}: ' + traceback.format_exc()[-400:])
    res.wall = time.time() - t0
    res.stats = dict(ex.stats)
    res.encoded = sorted(ex.encoded)
    res.models = sorted(ex.models_used)
    return res
