"""C09 (table part): the real IpTable MIR (BTreeMap modelled as a list kept sorted by the crate's own Obm::cmp MIR) against a
declarative longest-prefix-match reference.  A sequence of add / add_direct / remove / remove_direct operations over networks
with symbolic address and symbolic mask length 0..=32 (so nested, disjoint and duplicate networks all arise, decided by the
solver) is followed by get_recipient(a) for a symbolic address a."""
import os, re, time, traceback
import z3
from .core import Int, Agg, Ref, ListV, MapV, Panic, Unsupported, PathEnd, sym_int, mk_bool, b_and, b_or, b_not, b_ite_int, clone_val, UNIT
from . import loader

U32 = lambda v: Int(32, v)


def _valid(ex, cond):
    cond = mk_bool(cond)
    if cond is True:
        return True, None
    if cond is False:
        return False, ex.check_sat()[1]
    sat, m = ex.check_sat(z3.Not(cond))
    return (not sat), m


def ipaddr_of_u32(ex, x):
    """Ipv4Address value from a 32-bit Int (big-endian bytes)"""
    bs = []
    for i in range(4):
        hi = 31 - 8 * i
        bs.append(Int(8, (x.v >> (hi - 7)) & 0xff) if x.conc else Int(8, z3.Extract(hi, hi - 7, x.v)))
    return Agg('Ipv4Address', {0: ListV('array', bs)})


def u32_of_ipaddr(ex, a):
    its = a.f[0].items
    if all(b.conc for b in its):
        return Int(32, sum(b.v << (8 * (3 - i)) for i, b in enumerate(its)))
    return Int(32, z3.simplify(z3.Concat(*[b.z() for b in its])))


def ref_mask(ex, n):
    """reference: n leading ones (n symbolic 0..=32), via a 64-bit shift"""
    n64 = ex.cast(n, 'u64', 'IntToInt')
    ones = Int(64, 0xffffffff)
    sh = ex.binop('Sub', Int(64, 32), n64, False)
    return ex.cast(ex.binop('Shl', ex.binop('Shr', ones, sh, False), sh, False), 'u32', 'IntToInt')


class SpecViolation(Exception):
    def __init__(self, role, desc, model=None):
        self.role, self.desc, self.model = role, desc, model


def run_table_unit(ex, unit, res):
    ops = unit['ops']       # list of op kinds

    def body(ex):
        hold = {'t': ex.call('IpTable::<T>::new', [])}
        hist = []       # (kind, id Int32, len Int32, value)
        log = []
        for i, kind in enumerate(ops):
            addr = sym_int(f'addr{i}', 32)
            if kind in ('add', 'remove'):
                n = sym_int(f'len{i}', 32)
                ex.assume(ex.binop('Le', n, U32(32), False))
            else:
                n = U32(32)
            mask = ex.call('subnetting::Ipv4Mask::from_bitcount', [n])
            # the real constructors build the key; the reference uses its own mask computation
            net = ex.call('subnetting::Ipv4Net::new', [ipaddr_of_u32(ex, addr), mask])
            rid = ex.binop('BitAnd', addr, ref_mask(ex, n), False)
            if kind == 'add':
                v = sym_int(f'val{i}', 32)
                old = ex.call('IpTable::<T>::add', [Ref(hold, 't'), net, v])
                exp_old = ref_lookup_exact(ex, hist, rid, n)
                check_opt(ex, old, exp_old, f'add #{i} returned the wrong previous value', res)
                hist.append(('add', rid, n, v))
            elif kind == 'add_direct':
                v = sym_int(f'val{i}', 32)
                ex.call('IpTable::<T>::add_direct', [Ref(hold, 't'), ipaddr_of_u32(ex, addr), v])
                hist.append(('add', rid, n, v))
            elif kind == 'remove':
                old = ex.call('IpTable::<T>::remove', [Ref(hold, 't'), net])
                exp_old = ref_lookup_exact(ex, hist, rid, n)
                check_opt(ex, old, exp_old, f'remove #{i} returned the wrong value', res)
                hist.append(('remove', rid, n, None))
            elif kind == 'remove_direct':
                old = ex.call('IpTable::<T>::remove_direct', [Ref(hold, 't'), ipaddr_of_u32(ex, addr)])
                exp_old = ref_lookup_exact(ex, hist, rid, n)
                check_opt(ex, old, exp_old, f'remove_direct #{i} returned the wrong value', res)
                hist.append(('remove', rid, n, None))
            log.append(kind)
        a = sym_int('lookup', 32)
        got = ex.call('IpTable::<T>::get_recipient', [Ref(hold, 't'), ipaddr_of_u32(ex, a)])
        res['obligations'] += 1
        # reference: among the entries alive at the end that contain a, the one with the longest mask
        alive = alive_entries(ex, hist)
        cands = []
        for (rid, n, v, al) in alive:
            contains = ex.binop('Eq', ex.binop('BitAnd', a, ref_mask(ex, n), False), rid, False)
            cands.append((b_and(al, contains), n, v))
        any_c = b_or(*[c for c, _, _ in cands]) if cands else False
        if got.variant == 0:
            okv, m = _valid(ex, b_not(any_c))
            if not okv:
                raise SpecViolation('lookup-none-but-route-exists', f'{" ; ".join(log)} ; get_recipient returned None although a network containing the address is in the table', m)
        else:
            gv = got.f[0]
            # got value must be the value of a maximal-length containing alive entry
            okc = False
            for i, (c, n, v) in enumerate(cands):
                best = b_and(c, *[b_or(b_not(c2), ex.binop('Le', n2, n, False)) for j, (c2, n2, v2) in enumerate(cands) if j != i])
                okc = b_or(okc, b_and(best, ex.binop('Eq', gv, v, False)))
            okv, m = _valid(ex, okc)
            if not okv:
                raise SpecViolation('lookup-not-longest-prefix', f'{" ; ".join(log)} ; get_recipient returned a value that is not the one attached to the most specific network containing the address', m)
        return log

    def on_end(ex, kind, r):
        res['paths'] += 1
        if kind == 'panic':
            res['violations'].append({'key': f'mirx:iptable:panic:{r.msg[:60]}', 'desc': f'panic in {r.site}: {r.msg}', 'values': ex.model_values(), 'unit': res['unit']})
        elif len(res['samples']) < 2:
            res['samples'].append(' ; '.join(r))

    def wrapped(ex):
        try:
            return body(ex)
        except SpecViolation as v:
            m = v.model if v.model is not None else ex.check_sat()[1]
            vals = {}
            if m is not None:
                for d in m.decls():
                    try:
                        vals[str(d)] = m[d].as_long()
                    except Exception:
                        pass
            res['violations'].append({'key': f'mirx:iptable:{v.role}', 'desc': v.desc, 'values': vals, 'unit': res['unit']})
            raise PathEnd()

    ex.explore(wrapped, on_end, deadline=unit.get('deadline'))


def alive_entries(ex, hist):
    """[(id, len, value, alive-condition)] for every add in hist: alive iff no later add/remove has the same key"""
    out = []
    for i, (k, rid, n, v) in enumerate(hist):
        if k != 'add':
            continue
        al = True
        for (k2, rid2, n2, v2) in hist[i + 1:]:
            same = b_and(ex.binop('Eq', rid, rid2, False), ex.binop('Eq', n, n2, False))
            al = b_and(al, b_not(same))
        out.append((rid, n, v, al))
    return out


def ref_lookup_exact(ex, hist, rid, n):
    """(present condition, value) of key (rid, n) in the reference table after hist"""
    present = False
    val = U32(0)
    for (r2, n2, v2, al) in alive_entries(ex, hist):
        same = b_and(al, ex.binop('Eq', rid, r2, False), ex.binop('Eq', n, n2, False))
        present = b_or(present, same)
        val = b_ite_int(same, v2, val)
    return present, val


def check_opt(ex, got, exp, what, res):
    res['obligations'] += 1
    present, val = exp
    if got.variant == 0:
        okv, m = _valid(ex, b_not(present))
    else:
        okv, m = _valid(ex, b_and(present, ex.binop('Eq', got.f[0], val, False)))
    if not okv:
        raise SpecViolation('previous-value', what, m)


def table_units(tier):
    import itertools
    kinds = ['add', 'add_direct', 'remove', 'remove_direct']
    us = []
    n = 3 if tier == 'quick' else 4
    for seq in itertools.product(kinds, repeat=n):
        if seq[0] not in ('add', 'add_direct'):
            continue
        if sum(1 for k in seq if k.startswith('add')) < 2:
            continue
        us.append({'ops': list(seq)})
    return us


_W = {}


def worker_table(args):
    unit, budget = args
    if not _W:
        _W['l'] = loader.load()
    fns, enums, src = _W['l']
    ex = loader.new_exec(fns, enums, src)
    res = {'unit': dict(unit), 'paths': 0, 'obligations': 0, 'violations': [], 'samples': [], 'unsupported': []}
    t0 = time.time()
    u = dict(unit, deadline=t0 + budget)
    try:
        run_table_unit(ex, u, res)
    except Unsupported as e:
        res['unsupported'].append(str(e)[:300])
    except Exception as e:
        res['unsupported'].append(f'internal error {e!r}: ' + traceback.format_exc()[-600:])
    res['wall'] = time.time() - t0
    res['stats'] = dict(ex.stats)
    res['encoded'] = sorted(ex.encoded)
    res['models'] = sorted(ex.models_used)
    return res


# ------------------------------------------------------------------------------ C15: IpGenerator (sim/elvis/src/ip_generator.rs through the shim crate)

def avail_real(ex, gen, w):
    """w lies in some available range of the real generator (BTreeSet<IpRange> model)"""
    fs = gen.f[0]          # available_ranges
    acc = False
    for (rng, _) in fs.items:
        s_, e_ = u32_of_ipaddr(ex, rng.f[0]), u32_of_ipaddr(ex, rng.f[1])
        acc = b_or(acc, b_and(ex.binop('Le', s_, w, False), ex.binop('Le', w, e_, False)))
    return acc


def net_bounds(ex, net):
    """(id, broadcast) of an Ipv4Net value as 32-bit Ints, computed by the reference (id | ~mask)"""
    idv = u32_of_ipaddr(ex, net.f[0])
    mask = net.f[1].f[0]
    bc = ex.binop('BitOr', idv, ex.binop('BitXor', mask, U32(0xffffffff), False), False)
    return idv, bc


def in_net(ex, w, net):
    i, b = net_bounds(ex, net)
    return b_and(ex.binop('Le', i, w, False), ex.binop('Le', w, b, False))


def mk_net(ex, tag, lo=0, hi=32):
    addr = sym_int(f'{tag}_addr', 32)
    n = sym_int(f'{tag}_len', 32)
    ex.assume(ex.binop('Ge', n, U32(lo), False))
    ex.assume(ex.binop('Le', n, U32(hi), False))
    mask = ex.call('subnetting::Ipv4Mask::from_bitcount', [n])
    return ex.call('subnetting::Ipv4Net::new', [ipaddr_of_u32(ex, addr), mask]), n


def run_gen_unit(ex, unit, res):
    ops = unit['ops']
    ctor = unit['ctor']

    def body(ex):
        w = sym_int('w', 32)            # witness address: every set equality below is checked for arbitrary w
        pool, plen = mk_net(ex, 'pool', unit.get('pool_lo', 22), unit.get('pool_hi', 32))
        pid, pbc = net_bounds(ex, pool)
        log = [ctor]
        if ctor == 'new_sub':
            gen = {'g': ex.call('IpGenerator::new_sub', [clone_val(pool)])}
            ref = in_net(ex, w, pool)
        else:
            gen = {'g': ex.call('IpGenerator::new_sub_no_ends', [clone_val(pool)])}
            ref = b_and(ex.binop('Lt', pid, w, False), ex.binop('Lt', w, pbc, False))      # exactly the host addresses
        res['obligations'] += 1
        okv, m = _valid(ex, iff(avail_real(ex, gen['g'], w), ref))
        if not okv:
            raise SpecViolation(f'constructor-pool:{ctor}', f'{ctor}: the generator does not offer exactly the addresses of the configured pool', m)
        held = []       # nets handed out and not yet returned
        for i, kind in enumerate(ops):
            before = ref
            if kind in ('fetch_ip', 'fetch_net'):
                if kind == 'fetch_ip':
                    r = ex.call('IpGenerator::fetch_ip', [Ref(gen, 'g')])
                    got_net = None
                    if r.variant == 1:
                        mask32 = ex.call('subnetting::Ipv4Mask::from_bitcount', [U32(32)])
                        got_net = ex.call('subnetting::Ipv4Net::new', [r.f[0], mask32])
                    want_len = U32(32)
                else:
                    ml = sym_int(f'm{i}', 32)
                    ex.assume(ex.binop('Ge', ml, U32(unit.get('fetch_lo', 26)), False))
                    ex.assume(ex.binop('Le', ml, U32(32), False))
                    r = ex.call('IpGenerator::fetch_net', [Ref(gen, 'g'), ex.call('subnetting::Ipv4Mask::from_bitcount', [ml])])
                    got_net = r.f[0] if r.variant == 1 else None
                    want_len = ml
                res['obligations'] += 1
                if got_net is not None:
                    log.append(f'{kind} -> Some')
                    # every address of the returned network was available (not blocked, not held, inside the pool) ...
                    okv, m = _valid(ex, b_or(b_not(in_net(ex, w, got_net)), before))
                    if not okv:
                        raise SpecViolation(f'handed-out-unavailable-address:{kind}', ' ; '.join(log) + ': the returned network contains an address that was not available (outside the pool, blocked or still held)', m)
                    # ... and it has the requested mask
                    okv, m = _valid(ex, ex.binop('Eq', got_net.f[1].f[0], ref_mask(ex, want_len), False))
                    if not okv:
                        raise SpecViolation(f'wrong-mask:{kind}', ' ; '.join(log) + ': the returned network does not have the requested mask', m)
                    ref = b_and(before, b_not(in_net(ex, w, got_net)))
                    held.append(got_net)
                else:
                    log.append(f'{kind} -> None')
                    # exhaustion, not refusal: no single available range contains an aligned network of that size
                    base = sym_int(f'base{i}', 32)
                    hostmask = ex.binop('BitXor', ref_mask(ex, want_len), U32(0xffffffff), False)
                    aligned = ex.binop('Eq', ex.binop('BitAnd', base, hostmask, False), U32(0), False)
                    top = ex.binop('BitOr', base, hostmask, False)
                    fits = False
                    for (rng, _) in gen['g'].f[0].items:
                        s_, e_ = u32_of_ipaddr(ex, rng.f[0]), u32_of_ipaddr(ex, rng.f[1])
                        fits = b_or(fits, b_and(ex.binop('Le', s_, base, False), ex.binop('Le', top, e_, False)))
                    sat, m = ex.check_sat(b_and(aligned, fits))
                    if sat:
                        raise SpecViolation(f'none-although-space-left:{kind}', ' ; '.join(log) + ': None was returned although an available range still contains an aligned network of the requested size', m)
            elif kind == 'block':
                bn, _ = mk_net(ex, f'blk{i}', unit.get('blk_lo', 24), 32)
                ex.call('IpGenerator::block_subnet', [Ref(gen, 'g'), clone_val(bn)])
                ref = b_and(before, b_not(in_net(ex, w, bn)))
                log.append('block_subnet')
            elif kind == 'return':
                if not held:
                    raise PathEnd()
                hn = held.pop(0)
                ex.call('IpGenerator::return_subnet', [Ref(gen, 'g'), clone_val(hn)])
                ref = b_or(before, in_net(ex, w, hn))
                log.append('return_subnet(held)')
            res['obligations'] += 1
            okv, m = _valid(ex, iff(avail_real(ex, gen['g'], w), ref))
            if not okv:
                raise SpecViolation(f'available-set-wrong-after:{kind}', ' ; '.join(log) + ': the set of available addresses differs from pool minus blocked minus held', m)
        return log

    def on_end(ex, kind, r):
        res['paths'] += 1
        if kind == 'panic':
            res['violations'].append({'key': f'mirx:ipgen:panic:{r.msg[:60]}', 'desc': f'panic in {r.site}: {r.msg}', 'values': ex.model_values(), 'unit': res['unit']})
        elif len(res['samples']) < 2:
            res['samples'].append(' ; '.join(r))

    def wrapped(ex):
        try:
            return body(ex)
        except SpecViolation as v:
            m = v.model if v.model is not None else ex.check_sat()[1]
            vals = {}
            if m is not None:
                for d in m.decls():
                    try:
                        vals[str(d)] = m[d].as_long()
                    except Exception:
                        pass
            res['violations'].append({'key': f'mirx:ipgen:{v.role}', 'desc': v.desc, 'values': vals, 'unit': res['unit']})
            raise PathEnd()

    ex.explore(wrapped, on_end, deadline=unit.get('deadline'))


def iff(a, b):
    return b_or(b_and(a, b), b_and(b_not(a), b_not(b)))


def gen_units(tier):
    import itertools
    us = [{'ctor': 'new_sub_no_ends', 'ops': [], 'pool_lo': 0}, {'ctor': 'new_sub', 'ops': [], 'pool_lo': 0}]
    kinds = ['fetch_ip', 'fetch_net', 'block', 'return']

    def ok_seq(seq):
        heldc = 0
        for k in seq:
            if k == 'return':
                if heldc == 0:
                    return False
                heldc -= 1
            elif k.startswith('fetch'):
                heldc += 1
        return any(k.startswith('fetch') for k in seq)
    for seq in itertools.product(kinds, repeat=2):
        if ok_seq(seq):
            us.append({'ctor': 'new_sub', 'ops': list(seq)})
    # length 3: quick keeps the sequences with at most one block (each block can split a range in two, which multiplies the paths)
    for seq in itertools.product(kinds, repeat=3):
        if ok_seq(seq) and (tier != 'quick' or (seq.count('block') <= 1 and seq.count('fetch_net') <= 1)):
            us.append({'ctor': 'new_sub', 'ops': list(seq)})
    us.append({'ctor': 'new_sub_no_ends', 'ops': ['fetch_ip', 'fetch_ip']})
    # blocks only: the second block may cut two free ranges at once (the first one split the pool)
    us.append({'ctor': 'new_sub', 'ops': ['block', 'block']})
    us.append({'ctor': 'new_sub', 'ops': ['block', 'block', 'fetch_ip']} if tier == 'quick' else {'ctor': 'new_sub', 'ops': ['block', 'block', 'block']})
    return us


def worker_gen(args):
    unit, budget = args
    if 'g' not in _W:
        _W['g'] = loader.load_shim(['ip_generator.rs'], name='shim-ipgen')
    fns, enums, src, shim_root = _W['g']
    ex = loader.new_exec(fns, enums, src)
    ex.extra_roots = [shim_root]
    res = {'unit': dict(unit), 'paths': 0, 'obligations': 0, 'violations': [], 'samples': [], 'unsupported': []}
    t0 = time.time()
    u = dict(unit, deadline=t0 + budget)
    try:
        run_gen_unit(ex, u, res)
    except Unsupported as e:
        res['unsupported'].append(str(e)[:300])
    except Exception as e:
        res['unsupported'].append(f'internal error {e!r}: ' + traceback.format_exc()[-600:])
    res['wall'] = time.time() - t0
    res['stats'] = dict(ex.stats)
    res['encoded'] = sorted(ex.encoded)
    res['models'] = sorted(ex.models_used)
    return res
