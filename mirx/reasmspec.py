"""C11: the real Reassembly / Segment / BitVec / Fragment / BufId MIR against a byte-coverage reference.

Scenario (all inside one symbolic path family): two datagrams with symbolic header fields (source, destination, protocol and
identification are symbolic, so the solver decides whether their reassembly keys collide), each cut into 2-3 pieces at symbolic
8-byte block boundaries with a symbolic last-piece length; the pieces are delivered in an order and with duplicates chosen by
the executor's choice points; the expiry callback (maybe_cull_segment) is interleaved with a stale or the current epoch.
Payloads are provenance extents, so 'the returned body is exactly the original payload' is arithmetic over extents."""
import os, re, time, traceback, itertools
import z3
from .core import Int, Agg, Ref, ListV, MapV, Panic, Unsupported, PathEnd, sym_int, mk_bool, b_and, b_or, b_not, clone_val, UNIT
from . import loader
from .msgmodel import MsgV, msg_of, normalize
from .tcblib import struct_fields

U16 = lambda v: Int(16, v)
U64 = lambda v: Int(64, v)


class SpecViolation(Exception):
    def __init__(self, role, desc, model=None):
        self.role, self.desc, self.model = role, desc, model


def _valid(ex, cond):
    cond = mk_bool(cond)
    if cond is True:
        return True, None
    if cond is False:
        return False, ex.check_sat()[1]
    sat, m = ex.check_sat(z3.Not(cond))
    return (not sat), m


class Hdr:
    """Ipv4Header values by field name"""

    def __init__(self, src_root):
        self.idx = {k: i for i, k in enumerate(struct_fields(src_root, 'Ipv4Header', 'ipv4_parsing.rs'))}

    def make(self, tag, total_length, frag_off, mf, ident, src, dst, proto, ttl):
        f = {}
        vals = {'ihl': Int(8, 5), 'type_of_service': Agg('TypeOfService', {0: Int(8, 0)}), 'total_length': total_length, 'identification': ident,
                'fragment_offset': frag_off, 'flags': Agg('ControlFlags', {0: Int(8, 1 if mf else 0)}), 'time_to_live': ttl, 'protocol': proto,
                'checksum': Int(16, 0), 'source': src, 'destination': dst}
        for k, i in self.idx.items():
            f[i] = vals[k]
        return Agg('Ipv4Header', f)

    def get(self, h, k):
        return h.f[self.idx[k]]


def addr(tag):
    return Agg('Ipv4Address', {0: ListV('array', [sym_int(f'{tag}{i}', 8) for i in range(4)])})


def run_unit(ex, H, unit, res):
    npieces = unit['pieces']            # (pieces of datagram 0, pieces of datagram 1 or 0)
    order = unit['order']               # delivery order: list of (datagram, piece index), may contain duplicates
    cull = unit.get('cull')             # None | (position in order, 'stale'|'current')

    def body(ex):
        reasm = {'r': ex.call('<Reassembly as Default>::default', [])}
        dgs = []
        for d, n in enumerate(npieces):
            if n == 0:
                continue
            src, dst = addr(f's{d}_'), addr(f'd{d}_')
            proto, ident, ttl = sym_int(f'proto{d}', 8), sym_int(f'id{d}', 16), sym_int(f'ttl{d}', 8)
            blocks = []
            for i in range(n - 1):
                b = sym_int(f'blk{d}_{i}', 16)
                ex.assume(ex.binop('Ge', b, U16(1), False))
                ex.assume(ex.binop('Le', b, U16(2), False))
                blocks.append(b)
            last = sym_int(f'last{d}', 16)          # byte length of the final piece 1..=16 (not necessarily a multiple of 8)
            ex.assume(ex.binop('Ge', last, U16(1), False))
            ex.assume(ex.binop('Le', last, U16(16), False))
            pieces = []
            off_blocks = U16(0)
            for i in range(n):
                ln = ex.binop('Mul', blocks[i], U16(8), False) if i < n - 1 else last
                hdr = H.make(f'h{d}_{i}', ex.binop('Add', ln, U16(20), False), off_blocks, i < n - 1, ident, src, dst, proto, ttl)
                byte_off = ex.cast(ex.binop('Mul', off_blocks, U16(8), False), 'u64', 'IntToInt')
                pieces.append((hdr, msg_of(f'D{d}', byte_off, ex.cast(ln, 'u64', 'IntToInt')), byte_off, ex.cast(ln, 'u64', 'IntToInt')))
                if i < n - 1:
                    off_blocks = ex.binop('Add', off_blocks, blocks[i], False)
            total = ex.binop('Add', ex.cast(ex.binop('Mul', off_blocks, U16(8), False), 'u64', 'IntToInt'), ex.cast(last, 'u64', 'IntToInt'), False)
            # the same datagram as it arrives over a path that did not have to fragment it
            whole_hdr = H.make(f'h{d}_W', ex.binop('Add', ex.cast(total, 'u16', 'IntToInt'), U16(20), False), U16(0), False, ident, src, dst, proto, ttl)
            whole = (whole_hdr, msg_of(f'D{d}', U64(0), total), U64(0), total)
            dgs.append({'pieces': pieces, 'whole': whole, 'total': total, 'key': (src, dst, proto, ident), 'first_hdr': pieces[0][0], 'n': n})
        if len(dgs) == 2:
            # are the two reassembly keys equal?  (decided per path by the solver)
            k0, k1 = dgs[0]['key'], dgs[1]['key']
            same = b_and(ex.binop('Eq', k0[2], k1[2], False), ex.binop('Eq', k0[3], k1[3], False),
                         *[ex.binop('Eq', x, y, False) for x, y in zip(k0[0].f[0].items, k1[0].f[0].items)],
                         *[ex.binop('Eq', x, y, False) for x, y in zip(k0[1].f[0].items, k1[1].f[0].items)])
            collide = ex.concretize_bool(same)
            if collide:
                raise PathEnd()      # two different datagrams with one key are indistinguishable by design (RFC 791): outside the property
        received = {d: set() for d in range(len(dgs))}     # pieces received since the last completion
        incomplete_tokens = {}
        log = []
        for pos, (d, i) in enumerate(order):
            if cull is not None and cull[0] == pos and incomplete_tokens:
                dd = sorted(incomplete_tokens)[0]
                bufid, epoch = incomplete_tokens[dd]
                if cull[1] == 'stale':
                    if len(received[dd]) >= 2:
                        # an older token: the epoch handed out with the previous Incomplete
                        ex.call('Reassembly::maybe_cull_segment', [Ref(reasm, 'r'), clone_val(bufid), ex.binop('Sub', epoch, U16(1), False)])
                        log.append(f'cull(stale epoch) D{dd}')
                else:
                    ex.call('Reassembly::maybe_cull_segment', [Ref(reasm, 'r'), clone_val(bufid), epoch])
                    received[dd] = set()
                    del incomplete_tokens[dd]
                    log.append(f'cull(current epoch) D{dd}')
            hdr, msg, boff, blen = dgs[d]['whole'] if i == 'W' else dgs[d]['pieces'][i]
            dup = i in received[d]
            r = ex.call('Reassembly::receive_packet', [Ref(reasm, 'r'), clone_val(hdr), MsgV(msg.ext)])
            info = ex.enum_info['ReceivePacketResult']
            if i == 'W':
                complete_expected = True          # it covers the datagram entirely on its own
            else:
                received[d].add(i)
                complete_expected = len(received[d]) == dgs[d]['n']
            log.append((f'D{d}.whole' if i == 'W' else f'D{d}.piece{i}') + ('(dup)' if dup else ''))
            res['obligations'] += 1
            if r.variant == info['Complete']:
                if not complete_expected:
                    raise SpecViolation('complete-too-early', ' ; '.join(log) + ': a datagram was returned although not all of its pieces have arrived since its last completion')
                rh, rb = r.f[0], r.f[1]
                ext = normalize(ex, rb)
                want_total = dgs[d]['total']
                if len(ext) != 1 or ext[0][0] != f'D{d}':
                    srcs = [(e[0], str(e[1].v), str(e[2].v)) for e in ext]
                    klass = 'duplicate-piece-concatenated-twice' if any(x.endswith('(dup)') for x in log) and all(e[0] == f'D{d}' for e in ext) else \
                        ('foreign-bytes' if any(e[0] != f'D{d}' for e in ext) else 'pieces-out-of-order-or-overlapping')
                    raise SpecViolation(f'body-not-original:{klass}', ' ; '.join(log) + f': the returned body is not the original payload of D{d}: pieces {srcs[:5]}')
                okv, m = _valid(ex, b_and(ex.binop('Eq', ext[0][1], U64(0), False), ex.binop('Eq', ext[0][2], want_total, False)))
                if not okv:
                    raise SpecViolation('body-not-original:wrong-range', ' ; '.join(log) + f': the returned body is not exactly bytes [0, total) of D{d}', m)
                # header: the original one (offset 0, MF clear, total length restored, other fields equal)
                fh = dgs[d]['first_hdr']
                conds = [ex.binop('Eq', H.get(rh, 'fragment_offset'), U16(0), False),
                         ex.binop('Eq', ex.binop('BitAnd', H.get(rh, 'flags').f[0], Int(8, 1), False), Int(8, 0), False),
                         ex.binop('Eq', ex.cast(H.get(rh, 'total_length'), 'u64', 'IntToInt'), ex.binop('Add', want_total, U64(20), False), False),
                         ex.binop('Eq', H.get(rh, 'identification'), H.get(fh, 'identification'), False),
                         ex.binop('Eq', H.get(rh, 'protocol'), H.get(fh, 'protocol'), False),
                         ex.binop('Eq', H.get(rh, 'time_to_live'), H.get(fh, 'time_to_live'), False)]
                for x, y in zip(H.get(rh, 'source').f[0].items + H.get(rh, 'destination').f[0].items,
                                H.get(fh, 'source').f[0].items + H.get(fh, 'destination').f[0].items):
                    conds.append(ex.binop('Eq', x, y, False))
                okv, m = _valid(ex, b_and(*conds))
                if not okv:
                    raise SpecViolation('header-not-original', ' ; '.join(log) + f': the returned header is not the original header of D{d}', m)
                received[d] = set()
                incomplete_tokens.pop(d, None)
            else:
                if complete_expected:
                    raise SpecViolation('complete-missed', ' ; '.join(log) + f': all pieces of D{d} have arrived since its last completion but no datagram was returned')
                incomplete_tokens[d] = (r.f[1], r.f[2])
        return log

    def on_end(ex, kind, r):
        res['paths'] += 1
        if kind == 'panic':
            res['violations'].append({'key': f'mirx:reassembly:panic:{_short(r.msg)}', 'desc': f'panic in {r.site}: {r.msg}', 'values': ex.model_values(), 'unit': res['unit']})
            return
        if len(res['samples']) < 2:
            res['samples'].append(' ; '.join(r))

    def wrapped(ex):
        try:
            return body(ex)
        except SpecViolation as v:
            okk, m = (True, v.model) if v.model is not None else ex.check_sat()
            vals = {}
            if m is not None:
                for d in m.decls():
                    try:
                        vals[str(d)] = m[d].as_long()
                    except Exception:
                        pass
            res['violations'].append({'key': f'mirx:reassembly:{v.role}', 'desc': v.desc, 'values': vals, 'unit': res['unit']})
            raise PathEnd()

    ex.explore(wrapped, on_end, deadline=unit.get('deadline'))


def _short(msg):
    return re.sub(r'\s+', ' ', re.sub(r'[^A-Za-z0-9_ .()+\-*<>=!]', '', msg)).strip()[:70]


def units(tier):
    us = []
    # one datagram, 2 and 3 pieces, every arrival order, optionally one duplicate
    for n in (2, 3):
        idx = list(range(n))
        for perm in itertools.permutations(idx):
            us.append({'pieces': (n, 0), 'order': [(0, i) for i in perm]})
            if tier != 'quick' or n == 2 or perm in ((0, 1, 2), (2, 1, 0), (1, 0, 2)):
                for dup_pos in range(n):
                    o = [(0, i) for i in perm]
                    o.insert(dup_pos + 1, o[dup_pos])
                    us.append({'pieces': (n, 0), 'order': o})
    # two datagrams (2 + 2 pieces) interleaved
    for o in ([(0, 0), (1, 0), (0, 1), (1, 1)], [(0, 1), (1, 1), (1, 0), (0, 0)], [(1, 0), (0, 0), (0, 1), (1, 1)], [(0, 0), (1, 1), (1, 0), (0, 1)]):
        us.append({'pieces': (2, 2), 'order': o})
    # re-sent datagram after completion (pieces received since its LAST completion)
    us.append({'pieces': (2, 0), 'order': [(0, 0), (0, 1), (0, 1), (0, 0)]})
    # the datagram also arrives unfragmented (another path): that is a completion; pieces received before it no longer count
    us.append({'pieces': (2, 0), 'order': [(0, 0), (0, 'W'), (0, 1)]})
    us.append({'pieces': (2, 0), 'order': [(0, 'W'), (0, 1), (0, 0)]})
    us.append({'pieces': (3, 0), 'order': [(0, 1), (0, 0), (0, 'W'), (0, 2)]})
    us.append({'pieces': (2, 2), 'order': [(0, 0), (1, 0), (0, 'W'), (1, 1), (0, 1)]})
    # expiry callback with stale / current epoch between arrivals
    us.append({'pieces': (3, 0), 'order': [(0, 0), (0, 1), (0, 2)], 'cull': (2, 'stale')})
    us.append({'pieces': (2, 0), 'order': [(0, 0), (0, 1), (0, 0)], 'cull': (1, 'current')})
    us.append({'pieces': (2, 2), 'order': [(0, 0), (1, 0), (0, 1), (1, 1)], 'cull': (2, 'current')})
    return us


_W = {}


def worker(args):
    unit, budget = args
    if not _W:
        fns, enums, src = loader.load()
        _W['l'] = (fns, enums, src)
        _W['H'] = Hdr(src)
    fns, enums, src = _W['l']
    ex = loader.new_exec(fns, enums, src)
    res = {'unit': dict(unit), 'paths': 0, 'obligations': 0, 'violations': [], 'samples': [], 'unsupported': []}
    t0 = time.time()
    u = dict(unit, deadline=t0 + budget)
    try:
        run_unit(ex, _W['H'], u, res)
    except Unsupported as e:
        res['unsupported'].append(str(e)[:300])
    except Exception as e:
        res['unsupported'].append(f'internal error {e!r}: ' + traceback.format_exc()[-600:])
    res['wall'] = time.time() - t0
    res['stats'] = dict(ex.stats)
    res['encoded'] = sorted(ex.encoded)
    res['models'] = sorted(ex.models_used)
    return res
