"""Reference models of the std items the interpreted crate code calls (the trusted base of mirx).
Each model is small; crate code (including derived trait impls and closures) is never modelled here -
it is interpreted from its MIR."""
import re
import z3
from .core import (Int, Agg, Ref, ListV, MapV, IterV, Opaque, UNIT, Panic, Unsupported, PathEnd, mk_int, mk_bool, b_not, b_and,
                   b_or, b_ite_int, b_ite_bool, clone_val, some, none, ok, err, zb, INT_W)

U64 = lambda v: Int(64, v)


def deref(v):
    return v.get() if isinstance(v, Ref) else v


def option_some(v):
    return isinstance(v.variant, int) and v.variant == 1


def cmp_ordering(ex, a, b, cmp_callee):
    """call the crate's Ord::cmp MIR on (&a, &b) -> python int -1/0/1 (forks when symbolic)"""
    ha, hb = {'v': a}, {'v': b}
    r = ex.call(cmp_callee, [Ref(ha, 'v'), Ref(hb, 'v')])
    v = r.variant
    if v.conc:
        return v.signed_val()
    lab = ex.branch([(-1, v.v == z3.BitVecVal(255, 8)), (0, v.v == z3.BitVecVal(0, 8)), (1, v.v == z3.BitVecVal(1, 8))])
    return lab


def install(ex):
    M = ex.model

    # ------------------------------------------------------------------ integers
    @M(r'^core::num::<impl [ui](\d+|size)>::wrapping_add$')
    def wrapping_add(ex, c, a):
        return ex.binop('Add', a[0], a[1], False)

    @M(r'^core::num::<impl [ui](\d+|size)>::wrapping_sub$')
    def wrapping_sub(ex, c, a):
        return ex.binop('Sub', a[0], a[1], False)

    @M(r'^core::num::<impl [ui](\d+|size)>::wrapping_mul$')
    def wrapping_mul(ex, c, a):
        return ex.binop('Mul', a[0], a[1], False)

    @M(r'^core::num::<impl u(\d+|size)>::saturating_sub$')
    def saturating_sub(ex, c, a):
        lt = ex.binop('Lt', a[0], a[1], False)
        return b_ite_int(lt, Int(a[0].w, 0), ex.binop('Sub', a[0], a[1], False))

    @M(r'^core::num::<impl u(\d+|size)>::checked_add$')
    def checked_add(ex, c, a):
        r = ex.binop('AddWithOverflow', a[0], a[1], False)
        if ex.concretize_bool(r.f[1]):
            return none()
        return some(r.f[0])

    @M(r'^core::num::<impl u(\d+|size)>::checked_sub$')
    def checked_sub(ex, c, a):
        r = ex.binop('SubWithOverflow', a[0], a[1], False)
        if ex.concretize_bool(r.f[1]):
            return none()
        return some(r.f[0])

    @M(r'^core::num::<impl u(\d+|size)>::checked_add_signed$')
    def checked_add_signed(ex, c, a):
        x, d = a[0], a[1]
        w = x.w
        # x + d as signed; None on overflow of the unsigned range
        neg = ex.binop('Lt', d, Int(w, 0), True)
        s = ex.binop('Add', x, Int(w, d.v), False)
        # overflow: d >= 0 and s < x ; d < 0 and s > x
        ov = b_ite_bool(neg, ex.binop('Gt', s, x, False), ex.binop('Lt', s, x, False))
        if ex.concretize_bool(ov):
            return none()
        return some(s)

    @M(r'^core::num::<impl u(\d+|size)>::overflowing_add$')
    def overflowing_add(ex, c, a):
        return ex.binop('AddWithOverflow', a[0], a[1], False)

    @M(r'^core::num::<impl u(\d+|size)>::count_ones$')
    def count_ones(ex, c, a):
        x = a[0]
        if x.conc:
            return Int(32, bin(x.v).count('1'))
        tot = z3.BitVecVal(0, 32)
        for i in range(x.w):
            tot = tot + z3.ZeroExt(31, z3.Extract(i, i, x.v))
        return Int(32, tot)

    @M(r'^core::num::<impl u(\d+|size)>::(leading|trailing)_(zeros|ones)$')
    def lead_trail(ex, c, a):
        x = a[0]
        kind = re.search(r'(leading|trailing)_(zeros|ones)$', c).groups()
        w = x.w
        bit = 1 if kind[1] == 'ones' else 0
        order = range(w - 1, -1, -1) if kind[0] == 'leading' else range(w)
        if x.conc:
            n = 0
            for i in order:
                if (x.v >> i) & 1 == bit:
                    n += 1
                else:
                    break
            return Int(32, n)
        res = z3.BitVecVal(w, 32)
        k = w
        for i in reversed(list(order)):
            k -= 1
            res = z3.If(z3.Extract(i, i, x.v) == z3.BitVecVal(bit, 1), res, z3.BitVecVal(k, 32))
        return Int(32, res)

    @M(r'^core::num::<impl u(\d+)>::to_be_bytes$')
    def to_be_bytes(ex, c, a):
        x = a[0]
        n = x.w // 8
        out = []
        for i in range(n):
            hi = x.w - 8 * i - 1
            out.append(Int(8, (x.v >> (hi - 7)) & 0xff) if x.conc else mk_int(8, z3.simplify(z3.Extract(hi, hi - 7, x.v))))
        return ListV('array', out)

    @M(r'^core::num::<impl u(\d+)>::from_be_bytes$')
    def from_be_bytes(ex, c, a):
        items = a[0].items
        if all(b.conc for b in items):
            v = 0
            for b in items:
                v = (v << 8) | b.v
            return Int(8 * len(items), v)
        return mk_int(8 * len(items), z3.simplify(z3.Concat(*[b.z() for b in items])))

    @M(r'^<u(\d+|size) as Ord>::min$|^std::cmp::min::<u(\d+|size)>$|^core::cmp::min::<u')
    def umin(ex, c, a):
        return b_ite_int(ex.binop('Le', a[0], a[1], False), a[0], a[1])

    @M(r'^<u(\d+|size) as Ord>::max$|^std::cmp::max::<u(\d+|size)>$')
    def umax(ex, c, a):
        return b_ite_int(ex.binop('Ge', a[0], a[1], False), a[0], a[1])

    @M(r'^<u(\d+|size) as Ord>::cmp$|^<u(\d+|size) as PartialOrd>::partial_cmp$')
    def ucmp(ex, c, a):
        r = ex.binop('Cmp', deref(a[0]), deref(a[1]), False)
        return some(r) if 'partial_cmp' in c else r

    @M(r'^<u(\d+|size) as PartialOrd>::(lt|le|gt|ge)$')
    def upartial(ex, c, a):
        op = {'lt': 'Lt', 'le': 'Le', 'gt': 'Gt', 'ge': 'Ge'}[c.split('::')[-1]]
        return ex.binop(op, deref(a[0]), deref(a[1]), False)

    @M(r'^<(u\d+|usize|bool|i\d+) as PartialEq>::(eq|ne)$')
    def scalar_eq(ex, c, a):
        r = ex.binop('Eq', deref(a[0]), deref(a[1]), False)
        return b_not(r) if c.endswith('ne') else r

    @M(r'^std::cmp::Ordering::reverse$|^Ordering::reverse$')
    def ordering_reverse(ex, c, a):
        v = a[0].variant
        if v.conc:
            return Agg('Ordering', {}, Int(8, -v.signed_val()))
        return Agg('Ordering', {}, Int(8, z3.simplify(-v.v)))

    @M(r'^(std::cmp::)?Ordering::then_with::<|^(std::cmp::)?Ordering::then$')
    def ordering_then(ex, c, a):
        v = a[0].variant
        if not ex.concretize_bool(ex.binop('Eq', v, Int(8, 0), False)):
            return a[0]
        if 'then_with' in c:
            return _call_fn(ex, a[1], [])
        return a[1]

    @M(r'^(std::cmp::)?Ordering::(is_lt|is_le|is_gt|is_ge|is_eq|is_ne)$')
    def ordering_is(ex, c, a):
        v = a[0].variant
        k = c.split('::')[-1]
        z = Int(8, 0)
        return {'is_lt': lambda: ex.binop('Lt', v, z, True), 'is_le': lambda: ex.binop('Le', v, z, True), 'is_gt': lambda: ex.binop('Gt', v, z, True),
                'is_ge': lambda: ex.binop('Ge', v, z, True), 'is_eq': lambda: ex.binop('Eq', v, z, False), 'is_ne': lambda: b_not(ex.binop('Eq', v, z, False))}[k]()

    @M(r'^<(std::cmp::)?Ordering as PartialEq>::(eq|ne)$')
    def ordering_eq(ex, c, a):
        r = ex.binop('Eq', deref(a[0]).variant, deref(a[1]).variant, False)
        return b_not(r) if c.endswith('ne') else r

    @M(r'^<u(\d+|size) as (TryInto|TryFrom)<u(\d+|size)>>::(try_into|try_from)$|^<u(\d+|size) as TryFrom<u(\d+|size)>>::try_from$')
    def try_into(ex, c, a):
        m = re.match(r'^<u(\d+|size) as (TryInto|TryFrom)<u(\d+|size)>>', c)
        s1, kind, s2 = m.groups()
        src, dst = (s1, s2) if kind == 'TryInto' else (s2, s1)
        dw = INT_W['u' + dst]
        v = a[0]
        if dw >= v.w:
            return ok(Int(dw, v.v) if v.conc else Int(dw, z3.ZeroExt(dw - v.w, v.v) if dw > v.w else v.v))
        fits = ex.binop('Le', v, Int(v.w, (1 << dw) - 1), False)
        if ex.concretize_bool(fits):
            return ok(Int(dw, v.v) if v.conc else mk_int(dw, z3.simplify(z3.Extract(dw - 1, 0, v.v))))
        return err(Agg('TryFromIntError', {}))

    @M(r'^<u(\d+|size) as From<u(\d+|size)>>::from$|^<u(\d+|size) as Into<u(\d+|size)>>::into$|^<u(\d+|size) as From<bool>>::from$')
    def int_from(ex, c, a):
        m = re.match(r'^<u(\d+|size) as (From|Into)<(u(?:\d+|size)|bool)>>', c)
        t1, kind, t2 = m.groups()
        dst = t1 if kind == 'From' else t2[1:]
        dw = INT_W['u' + dst]
        v = a[0]
        if isinstance(v, bool):
            return Int(dw, 1 if v else 0)
        if not isinstance(v, Int):
            return Int(dw, z3.If(v, z3.BitVecVal(1, dw), z3.BitVecVal(0, dw)))
        return Int(dw, v.v) if v.conc else Int(dw, z3.ZeroExt(dw - v.w, v.v) if dw > v.w else v.v)

    @M(r'^<(u\d+|usize|bool) as Default>::default$')
    def scalar_default(ex, c, a):
        t = re.match(r'^<(\w+) as', c).group(1)
        return False if t == 'bool' else Int(INT_W[t], 0)

    @M(r'^<(u\d+|usize|bool|i\d+) as Clone>::clone$')
    def scalar_clone(ex, c, a):
        return deref(a[0])

    # ------------------------------------------------------------------ Option / Result
    @M(r'^(std::option::)?Option::<.*>::(unwrap|expect)$')
    def option_unwrap(ex, c, a):
        if a[0].variant != 1:
            raise Panic('unwrap on None', c)
        return a[0].f[0]

    @M(r'^(std::result::)?Result::<.*>::(unwrap|expect)$')
    def result_unwrap(ex, c, a):
        if a[0].variant != 0:
            raise Panic('unwrap on Err', c)
        return a[0].f[0]

    @M(r'^Option::<.*>::unwrap_or(::<.*>)?$')
    def option_unwrap_or(ex, c, a):
        return a[0].f[0] if a[0].variant == 1 else a[1]

    @M(r'^Option::<.*>::unwrap_or_default$|^Result::<.*>::unwrap_or_default$')
    def option_unwrap_or_default(ex, c, a):
        good = 1 if c.startswith('Option') else 0
        if a[0].variant == good:
            return a[0].f[0]
        ty = split_generic(re.search(r'^(?:Option|Result)::<(.*)>::unwrap_or_default$', c).group(1))[0].strip()
        return default_of(ex, ty)

    @M(r'^Option::<.*>::is_some$')
    def option_is_some(ex, c, a):
        return deref(a[0]).variant == 1

    @M(r'^Option::<.*>::is_none$')
    def option_is_none(ex, c, a):
        return deref(a[0]).variant == 0

    @M(r'^Result::<.*>::is_ok$')
    def result_is_ok(ex, c, a):
        return deref(a[0]).variant == 0

    @M(r'^Result::<.*>::is_err$')
    def result_is_err(ex, c, a):
        return deref(a[0]).variant == 1

    @M(r'^Result::<.*>::ok(::<.*>)?$')
    def result_ok(ex, c, a):
        return some(a[0].f[0]) if a[0].variant == 0 else none()

    @M(r'^Option::<.*>::ok_or(::<.*>)?$')
    def option_ok_or(ex, c, a):
        return ok(a[0].f[0]) if a[0].variant == 1 else err(a[1])

    @M(r'^Result::<.*>::or::<')
    def result_or(ex, c, a):
        return a[0] if a[0].variant == 0 else a[1]

    @M(r'^Result::<.*>::map_err::<')
    def result_map_err(ex, c, a):
        if a[0].variant == 0:
            return a[0]
        return err(ex.call_closure(a[1], [a[0].f[0]]))

    @M(r'^(Option|Result)::<.*>::map::<')
    def opt_map(ex, c, a):
        o = a[0]
        good = 1 if o.ty == 'Option' else 0
        if o.variant != good:
            return o
        fn = a[1]
        if isinstance(fn, Opaque) and 'closure@' not in fn.what:
            r = ex.call(_fn_item_name(fn.what), [o.f[0]])   # fn item, e.g. Ipv4Address::from / ListenResult::Response
        else:
            r = ex.call_closure(fn, [o.f[0]])
        return Agg(o.ty, {0: r}, good)

    @M(r'^Option::<.*>::as_ref$|^Option::<.*>::as_mut$')
    def option_as_ref(ex, c, a):
        o = deref(a[0])
        return some(Ref(o.f, 0)) if o.variant == 1 else none()

    @M(r'^Option::<.*>::take$')
    def option_take(ex, c, a):
        o = a[0].get()
        a[0].set(none())
        return o

    @M(r'^<(Option|Result)<.*> as Try>::branch$')
    def try_branch(ex, c, a):
        r = a[0]
        good = 1 if r.ty == 'Option' else 0
        if r.variant == good:
            return Agg('ControlFlow', {0: r.f[0]}, 0)
        return Agg('ControlFlow', {0: r}, 1)

    @M(r'^<(Option|Result)<.*> as FromResidual<(Option|Result)<.*>>>::from_residual$')
    def from_residual(ex, c, a):
        r = a[0]
        if r.ty == 'Result':
            m = re.match(r'^<Result<(.*)> as FromResidual<Result<(.*)>>>::from_residual$', c)
            if m:
                dst_e = split_generic(m.group(1))[-1]
                src_e = split_generic(m.group(2))[-1]
                if dst_e.strip() != src_e.strip():
                    conv = ex.resolve(f'<{dst_e.strip()} as From<{src_e.strip()}>>::from')
                    if conv is None:
                        raise Unsupported('error conversion ' + c)
                    return err(ex.run(conv, [r.f[0]]))
        return r

    # ------------------------------------------------------------------ more Option / Result combinators (a changed tree may use any of them)
    def _call_fn(ex, fn, args):
        if isinstance(fn, Opaque) and 'closure@' not in fn.what:
            return ex.call(_fn_item_name(fn.what), list(args))
        return ex.call_closure(fn, list(args))

    def _good(o):
        return 1 if o.ty == 'Option' else 0

    @M(r'^(Option|Result)::<.*>::map_or::<')
    def opt_map_or(ex, c, a):
        o = a[0]
        return _call_fn(ex, a[2], [o.f[0]]) if o.variant == _good(o) else a[1]

    @M(r'^(Option|Result)::<.*>::map_or_else::<')
    def opt_map_or_else(ex, c, a):
        o = a[0]
        if o.variant == _good(o):
            return _call_fn(ex, a[2], [o.f[0]])
        return _call_fn(ex, a[1], [] if o.ty == 'Option' else [o.f[0]])

    @M(r'^(Option|Result)::<.*>::and_then::<')
    def opt_and_then(ex, c, a):
        o = a[0]
        return _call_fn(ex, a[1], [o.f[0]]) if o.variant == _good(o) else o

    @M(r'^Option::<.*>::or_else::<')
    def opt_or_else(ex, c, a):
        return a[0] if a[0].variant == 1 else _call_fn(ex, a[1], [])

    @M(r'^Option::<.*>::or$')
    def opt_or(ex, c, a):
        return a[0] if a[0].variant == 1 else a[1]

    @M(r'^Option::<.*>::and::<')
    def opt_and(ex, c, a):
        return a[1] if a[0].variant == 1 else none()

    @M(r'^Option::<.*>::xor$')
    def opt_xor(ex, c, a):
        if a[0].variant == 1 and a[1].variant == 0:
            return a[0]
        if a[0].variant == 0 and a[1].variant == 1:
            return a[1]
        return none()

    @M(r'^(Option|Result)::<.*>::unwrap_or_else::<')
    def opt_unwrap_or_else(ex, c, a):
        o = a[0]
        if o.variant == _good(o):
            return o.f[0]
        return _call_fn(ex, a[1], [] if o.ty == 'Option' else [o.f[0]])

    @M(r'^Result::<.*>::unwrap_or$|^Result::<.*>::unwrap_or::<')
    def res_unwrap_or(ex, c, a):
        return a[0].f[0] if a[0].variant == 0 else a[1]

    @M(r'^Result::<.*>::(unwrap_err|expect_err)$')
    def res_unwrap_err(ex, c, a):
        if a[0].variant != 1:
            raise Panic('unwrap_err on Ok', c)
        return a[0].f[0]

    @M(r'^Result::<.*>::err$')
    def res_err(ex, c, a):
        return some(a[0].f[0]) if a[0].variant == 1 else none()

    @M(r'^Result::<.*>::and::<')
    def res_and(ex, c, a):
        return a[1] if a[0].variant == 0 else a[0]

    @M(r'^Result::<.*>::or_else::<')
    def res_or_else(ex, c, a):
        return a[0] if a[0].variant == 0 else _call_fn(ex, a[1], [a[0].f[0]])

    @M(r'^Option::<.*>::ok_or_else::<')
    def opt_ok_or_else(ex, c, a):
        return ok(a[0].f[0]) if a[0].variant == 1 else err(_call_fn(ex, a[1], []))

    @M(r'^Option::<.*>::filter::<')
    def opt_filter(ex, c, a):
        o = a[0]
        if o.variant != 1:
            return o
        h = {'v': o.f[0]}
        return o if ex.concretize_bool(ex.tobool(_call_fn(ex, a[1], [Ref(h, 'v')]))) else none()

    @M(r'^Option::<.*>::(is_some_and|is_none_or)::<')
    def opt_is_some_and(ex, c, a):
        o = a[0]
        if o.variant != 1:
            return 'is_none_or' in c
        return ex.tobool(_call_fn(ex, a[1], [o.f[0]]))

    @M(r'^Result::<.*>::(is_ok_and|is_err_and)::<')
    def res_is_ok_and(ex, c, a):
        o = a[0]
        want = 0 if 'is_ok_and' in c else 1
        if o.variant != want:
            return False
        return ex.tobool(_call_fn(ex, a[1], [o.f[0]]))

    @M(r'^Option::<&(mut )?.*>::(copied|cloned)$')
    def opt_copied(ex, c, a):
        o = a[0]
        return some(clone_val(deref(o.f[0]))) if o.variant == 1 else o

    @M(r'^Option::<.*>::zip::<')
    def opt_zip(ex, c, a):
        if a[0].variant == 1 and a[1].variant == 1:
            return some(Agg('tuple', {0: a[0].f[0], 1: a[1].f[0]}))
        return none()

    @M(r'^Option::<.*>::replace$')
    def opt_replace(ex, c, a):
        old = a[0].get()
        a[0].set(some(a[1]))
        return old

    @M(r'^Option::<.*>::insert$|^Option::<.*>::get_or_insert$')
    def opt_insert(ex, c, a):
        cur = a[0].get()
        if 'get_or_insert' in c and cur.variant == 1:
            return Ref(cur.f, 0)
        nv = some(a[1])
        a[0].set(nv)
        return Ref(nv.f, 0)

    @M(r'^Option::<.*>::unwrap_unchecked$|^Result::<.*>::unwrap_unchecked$')
    def opt_unwrap_unchecked(ex, c, a):
        return a[0].f[0]

    # ------------------------------------------------------------------ more integer methods
    @M(r'^core::num::<impl u(\d+|size)>::(saturating_add|saturating_mul)$')
    def sat_add(ex, c, a):
        op = 'AddWithOverflow' if 'add' in c else 'MulWithOverflow'
        r = ex.binop(op, a[0], a[1], False)
        return b_ite_int(r.f[1], Int(a[0].w, (1 << a[0].w) - 1), r.f[0])

    @M(r'^core::num::<impl u(\d+|size)>::checked_mul$')
    def checked_mul(ex, c, a):
        r = ex.binop('MulWithOverflow', a[0], a[1], False)
        return none() if ex.concretize_bool(r.f[1]) else some(r.f[0])

    @M(r'^core::num::<impl u(\d+|size)>::(checked_div|checked_rem)$')
    def checked_div(ex, c, a):
        if ex.concretize_bool(ex.binop('Eq', a[1], Int(a[1].w, 0), False)):
            return none()
        return some(ex.binop('Div' if 'div' in c else 'Rem', a[0], a[1], False))

    @M(r'^core::num::<impl u(\d+|size)>::overflowing_sub$')
    def overflowing_sub(ex, c, a):
        return ex.binop('SubWithOverflow', a[0], a[1], False)

    @M(r'^core::num::<impl u(\d+|size)>::abs_diff$')
    def abs_diff(ex, c, a):
        lt = ex.binop('Lt', a[0], a[1], False)
        return b_ite_int(lt, ex.binop('Sub', a[1], a[0], False), ex.binop('Sub', a[0], a[1], False))

    @M(r'^core::num::<impl u(\d+|size)>::wrapping_neg$')
    def wrapping_neg(ex, c, a):
        return ex.binop('Sub', Int(a[0].w, 0), a[0], False)

    @M(r'^core::num::<impl u(\d+|size)>::(wrapping_shl|wrapping_shr)$')
    def wrapping_shift(ex, c, a):
        amt = ex.binop('BitAnd', ex.cast(a[1], 'u' + str(a[0].w) if a[0].w != 64 else 'u64', 'IntToInt'), Int(a[0].w, a[0].w - 1), False)
        return ex.binop('Shl' if 'shl' in c else 'Shr', a[0], amt, False)

    @M(r'^core::num::<impl u(\d+|size)>::is_power_of_two$')
    def is_pow2(ex, c, a):
        x = a[0]
        m1 = ex.binop('Sub', x, Int(x.w, 1), False)
        return b_and(b_not(ex.binop('Eq', x, Int(x.w, 0), False)), ex.binop('Eq', ex.binop('BitAnd', x, m1, False), Int(x.w, 0), False))

    @M(r'^core::num::<impl u(\d+|size)>::(swap_bytes|to_be|from_be)$')
    def swap_bytes(ex, c, a):
        x = a[0]
        n = x.w // 8
        if x.conc:
            v = 0
            for i in range(n):
                v |= ((x.v >> (8 * i)) & 0xff) << (8 * (n - 1 - i))
            return Int(x.w, v)
        return Int(x.w, z3.Concat(*[z3.Extract(8 * i + 7, 8 * i, x.v) for i in range(n)]))

    @M(r'^core::num::<impl u(\d+)>::(to_le_bytes|to_ne_bytes)$')
    def to_le_bytes(ex, c, a):
        x = a[0]
        return ListV('array', [Int(8, (x.v >> (8 * i)) & 0xff) if x.conc else mk_int(8, z3.simplify(z3.Extract(8 * i + 7, 8 * i, x.v))) for i in range(x.w // 8)])

    @M(r'^core::num::<impl u(\d+)>::(from_le_bytes|from_ne_bytes)$')
    def from_le_bytes(ex, c, a):
        items = list(reversed(a[0].items))
        if all(b.conc for b in items):
            v = 0
            for b in items:
                v = (v << 8) | b.v
            return Int(8 * len(items), v)
        return mk_int(8 * len(items), z3.simplify(z3.Concat(*[b.z() for b in items])))

    @M(r'^<u(\d+|size) as Ord>::clamp$|^core::cmp::Ord::clamp$')
    def uclamp(ex, c, a):
        lo = b_ite_int(ex.binop('Lt', a[0], a[1], False), a[1], a[0])
        return b_ite_int(ex.binop('Gt', lo, a[2], False), a[2], lo)

    @M(r'^core::bool::<impl bool>::(then|then_some)::<')
    def bool_then(ex, c, a):
        if not ex.concretize_bool(ex.tobool(a[0]) if hasattr(ex, 'tobool') else a[0]):
            return none()
        if '::then_some::<' in c:
            return some(a[1])
        return some(_call_fn(ex, a[1], []))

    @M(r'^<\{closure@[^}]*\} as Fn(Mut|Once)?<\(.*\)>>::call(_mut|_once)?$')
    def closure_call_direct(ex, c, a):
        cl = a[0] if c.endswith('call_once') else deref(a[0])
        tup = a[1]
        args = [tup.f[i] for i in sorted(tup.f)] if isinstance(tup, Agg) else []
        return ex.call_closure(cl, args)

    @M(r'^<(Vec|VecDeque)<.*> as From<\[.*; (\d+|N)\]>>::from$|^<(Vec|VecDeque)<.*> as From<(Vec|VecDeque)<.*>>>::from$')
    def list_from_array(ex, c, a):
        kind = 'VecDeque' if c.startswith('<VecDeque') else 'Vec'
        src = a[0]
        if not isinstance(src, ListV):
            raise Unsupported('From for ' + repr(src)[:40])
        return ListV(kind, list(src.items))

    @M(r'^<(Vec|VecDeque)<.*> as From<&(mut )?\[.*\]>>::from$')
    def list_from_slice(ex, c, a):
        kind = 'VecDeque' if c.startswith('<VecDeque') else 'Vec'
        src = deref(a[0])
        items = src.items if isinstance(src, ListV) else None
        if items is None:
            raise Unsupported('From<&[T]> for ' + repr(src)[:40])
        return ListV(kind, [clone_elem(ex, x, c) for x in items])

    @M(r'^core::slice::<impl \[.*\]>::(copy_from_slice|clone_from_slice)$')
    def slice_copy_from(ex, c, a):
        dst, src = deref(a[0]), deref(a[1])
        if len(dst.items) != len(src.items):
            raise Panic('source slice length does not match destination slice length', c)
        for i in range(len(src.items)):
            dst.items[i] = clone_elem(ex, src.items[i], c)
        return UNIT

    @M(r'^core::slice::<impl \[.*\]>::fill$')
    def slice_fill(ex, c, a):
        dst = deref(a[0])
        for i in range(len(dst.items)):
            dst.items[i] = clone_elem(ex, a[1], c)
        return UNIT

    # ------------------------------------------------------------------ async: only the synchronous prefix of a coroutine is executed
    @M(r'^Pin::<.*>::new_unchecked$|^std::pin::Pin::<.*>::new_unchecked$|^Pin::<.*>::new$')
    def pin_new(ex, c, a):
        return Agg('Pin', {0: a[0]})

    @M(r'^<.* as IntoFuture>::into_future$')
    def into_future(ex, c, a):
        return a[0]

    @M(r'^<.* as Future>::poll$')
    def future_poll(ex, c, a):
        from .core import Suspended
        hook = (getattr(ex, 'env', None) or {}).get('poll_hook')
        if hook is not None:
            r = hook(ex, c, a)
            if r is not None:
                return r
        raise Suspended(c)

    @M(r'^<Arc<.*> as AsRef<.*>>::as_ref$|^<Box<.*> as AsRef<.*>>::as_ref$|^<Arc<.*> as std::borrow::Borrow<.*>>::borrow$')
    def arc_as_ref(ex, c, a):
        v = deref(a[0])
        if isinstance(v, Agg) and v.ty in ('Arc', 'Box', 'Rc'):
            return Ref(v.f, 0)
        raise Unsupported('as_ref of ' + repr(v)[:50])

    @M(r'^Option::<.*>::(as_deref|as_deref_mut)$')
    def option_as_deref(ex, c, a):
        o = deref(a[0])
        if o.variant != 1:
            return none()
        x = o.f[0]
        if isinstance(x, Agg) and x.ty in ('Box', 'Arc', 'Rc'):
            return some(Ref(x.f, 0))
        return some(Ref(o.f, 0))          # Vec<T> -> &[T], String -> &str: the list value itself stands for the slice

    # ------------------------------------------------------------------ mem / default / misc
    @M(r'^std::mem::take::<|^core::mem::take::<')
    def mem_take(ex, c, a):
        r = a[0]
        old = r.get()
        if hasattr(old, 'mirx_default'):
            r.set(old.mirx_default())
        elif isinstance(old, ListV):
            r.set(ListV(old.kind, []))
        elif isinstance(old, MapV):
            r.set(MapV(old.kind, []))
        elif isinstance(old, bool) or z3.is_bool(old):
            r.set(False)
        elif isinstance(old, Int):
            r.set(Int(old.w, 0))
        elif isinstance(old, Agg) and old.ty == 'Option':
            r.set(none())
        else:
            ty = re.search(r'take::<(.*)>$', c)
            d = ex.resolve(f'<{ty.group(1)} as Default>::default') if ty else None
            if d is None:
                raise Unsupported('mem::take of ' + repr(old)[:60])
            r.set(ex.run(d, []))
        return old

    @M(r'^std::mem::swap::<|^core::mem::swap::<')
    def mem_swap(ex, c, a):
        x, y = a[0].get(), a[1].get()
        a[0].set(y)
        a[1].set(x)
        return UNIT

    @M(r'^std::mem::replace::<|^core::mem::replace::<')
    def mem_replace(ex, c, a):
        old = a[0].get()
        a[0].set(a[1])
        return old

    @M(r'^std::mem::drop::<|^core::mem::drop::<|^std::mem::forget::<')
    def mem_drop(ex, c, a):
        return UNIT

    @M(r'^<(Vec|VecDeque|BinaryHeap)<.*> as Default>::default$|^(Vec|VecDeque|BinaryHeap)::<.*>::new$|^(Vec|VecDeque)::<.*>::with_capacity$')
    def list_new(ex, c, a):
        kind = re.search(r'(VecDeque|Vec|BinaryHeap)', c).group(1)
        return ListV(kind, [])

    @M(r'^<Option<.*> as Default>::default$')
    def option_default(ex, c, a):
        return none()

    # ------------------------------------------------------------------ Vec / VecDeque
    @M(r'^(Vec|VecDeque)::<.*>::(push|push_back)$')
    def list_push(ex, c, a):
        a[0].get().items.append(a[1])
        return UNIT

    @M(r'^VecDeque::<.*>::push_front$')
    def list_push_front(ex, c, a):
        a[0].get().items.insert(0, a[1])
        return UNIT

    @M(r'^VecDeque::<.*>::pop_front$')
    def list_pop_front(ex, c, a):
        l = a[0].get()
        return some(l.items.pop(0)) if l.items else none()

    @M(r'^(Vec|VecDeque)::<.*>::(pop|pop_back)$')
    def list_pop(ex, c, a):
        l = a[0].get()
        return some(l.items.pop()) if l.items else none()

    @M(r'^VecDeque::<.*>::(front|front_mut)$|^(<\[.*\]>|core::slice::<impl \[.*\]>)::(first|first_mut)$')
    def list_front(ex, c, a):
        l = deref(a[0])
        return some(Ref(l.items, 0)) if l.items else none()

    @M(r'^VecDeque::<.*>::(back|back_mut)$|^(<\[.*\]>|core::slice::<impl \[.*\]>)::(last|last_mut)$')
    def list_back(ex, c, a):
        l = deref(a[0])
        return some(Ref(l.items, len(l.items) - 1)) if l.items else none()

    @M(r'^(Vec|VecDeque)::<.*>::len$|^core::slice::<impl \[.*\]>::len$|^<\[.*\]>::len$')
    def list_len(ex, c, a):
        return Int(64, len(deref(a[0]).items))

    @M(r'^(Vec|VecDeque|BinaryHeap)::<.*>::is_empty$|^core::slice::<impl \[.*\]>::is_empty$')
    def list_is_empty(ex, c, a):
        return len(deref(a[0]).items) == 0

    @M(r'^(Vec|VecDeque)::<.*>::clear$')
    def list_clear(ex, c, a):
        a[0].get().items.clear()
        return UNIT

    @M(r'^VecDeque::<.*>::(get|get_mut)$|^core::slice::<impl \[.*\]>::(get|get_mut)::<usize>$')
    def list_get(ex, c, a):
        l = deref(a[0])
        k = ex.concretize_int(a[1], list(range(len(l.items) + 1)), 'get index') if not a[1].conc else a[1].v
        if k >= len(l.items):
            return none()
        return some(Ref(l.items, k))

    @M(r'^(VecDeque|Vec)::<.*>::remove$')
    def list_remove(ex, c, a):
        l = a[0].get()
        k = ex.concretize_int(a[1], list(range(len(l.items) + 1)), 'remove index') if not a[1].conc else a[1].v
        if k >= len(l.items):
            if l.kind == 'Vec':
                raise Panic('Vec::remove index out of bounds', c)
            return none()
        v = l.items.pop(k)
        return v if l.kind == 'Vec' else some(v)

    @M(r'^VecDeque::<.*>::append$|^Vec::<.*>::append$')
    def list_append(ex, c, a):
        dst, src = a[0].get(), a[1].get()
        dst.items.extend(src.items)
        src.items = []
        return UNIT

    @M(r'^String::from_utf8$')
    def string_from_utf8(ex, c, a):
        # UTF-8 validity of a symbolic byte string is not encoded: an empty vector is valid; for a non-empty one both outcomes are explored
        # (over-approximation - a violation that depends on the choice is settled by the native replay)
        lst = a[0]
        if isinstance(lst, ListV) and len(lst.items) == 0:
            return ok(Agg('String', {0: lst}))
        if ex.choose(['utf8-valid', 'utf8-invalid']) == 'utf8-valid':
            return ok(Agg('String', {0: lst}))
        return err(Opaque('FromUtf8Error'))

    @M(r'^Vec::<.*>::extend_from_slice$')
    def list_extend_from_slice(ex, c, a):
        a[0].get().items.extend(clone_val(x) for x in deref(a[1]).items)
        return UNIT

    @M(r'^VecDeque::<.*>::drain::<(std::ops::)?RangeFrom<usize>>$')
    def deque_drain_from(ex, c, a):
        l = a[0].get()
        start = a[1].f[0]
        k = ex.concretize_int(start, list(range(len(l.items) + 1)), 'drain start') if not start.conc else start.v
        if k > len(l.items):
            raise Panic('drain start out of range', c)
        removed = l.items[k:]
        del l.items[k:]
        return IterV(ListV('drained', removed), 'val')

    @M(r'^<(Vec|VecDeque)<.*> as Clone>::clone$')
    def list_clone(ex, c, a):
        l = deref(a[0])
        out = []
        for x in l.items:
            out.append(clone_elem(ex, x, c))
        return ListV(l.kind, out)

    @M(r'^(Vec|VecDeque)::<.*>::(iter|iter_mut)$|^core::slice::<impl \[.*\]>::(iter|iter_mut)$|^<\[.*\]>::(iter|iter_mut)$')
    def list_iter(ex, c, a):
        return IterV(deref(a[0]), 'mut' if c.endswith('iter_mut') else 'ref')

    @M(r'^<(Vec|VecDeque)<.*> as IntoIterator>::into_iter$|^<\[.*; \d+\] as IntoIterator>::into_iter$')
    def list_into_iter(ex, c, a):
        return IterV(a[0], 'val')

    @M(r'^<&(mut )?(Vec|VecDeque)<.*> as IntoIterator>::into_iter$|^<&(mut )?\[.*\] as IntoIterator>::into_iter$')
    def list_ref_into_iter(ex, c, a):
        return IterV(deref(a[0]), 'mut' if c.startswith('<&mut') else 'ref')

    @M(r'^<.*(Iter|IterMut|IntoIter|Drain|Map|Cloned|Copied|Rev|Enumerate)<.*> as IntoIterator>::into_iter$')
    def iter_into_iter(ex, c, a):
        return a[0]

    @M(r'^<.* as Iterator>::map::<')
    def iter_map(ex, c, a):
        it = a[0]
        return IterV(it.lst, it.mode, it.pos, it.adapt + [('map', a[1])], it.end)

    @M(r'^<.* as Iterator>::flat_map::<')
    def iter_flat_map(ex, c, a):
        it = a[0]
        return IterV(it.lst, it.mode, it.pos, it.adapt + [('flatmap', a[1])], it.end)

    @M(r'^<.* as Iterator>::eq::<')
    def iter_eq(ex, c, a):
        x, y = a[0], a[1]
        acc = True
        while True:
            nx, ny = iter_next_val(ex, x), iter_next_val(ex, y)
            if nx.variant == 0 or ny.variant == 0:
                return b_and(acc, nx.variant == ny.variant)
            acc = b_and(acc, ex.binop('Eq', deref(nx.f[0]), deref(ny.f[0]), False))
            if acc is False:
                return False

    @M(r'^<.* as Iterator>::nth$')
    def iter_nth(ex, c, a):
        it = a[0].get() if isinstance(a[0], Ref) else a[0]
        n = a[1]
        k = n.v if n.conc else ex.concretize_int(n, list(range(0, 64)), 'nth')
        r = none()
        for _ in range(k + 1):
            r = iter_next_val(ex, it)
            if r.variant == 0:
                return r
        return r

    @M(r'^Arc::<.*>::new$|^std::sync::Arc::<.*>::new$')
    def arc_new(ex, c, a):
        return Agg('Arc', {0: a[0]})

    @M(r'^<Arc<.*> as Clone>::clone$')
    def arc_clone(ex, c, a):
        return deref(a[0])           # shared: the same object (immutability of the pointee is what the spec checks)

    @M(r'^<Arc<.*> as Deref>::deref$')
    def arc_deref(ex, c, a):
        return Ref(deref(a[0]).f, 0)

    @M(r'^<Vec<.*> as Index<std::ops::Range<usize>>>::index$|^<\[.*\] as Index<std::ops::Range<usize>>>::index$')
    def index_range(ex, c, a):
        l = deref(a[0])
        r = a[1]
        n = len(l.items)
        s_ = r.f[0].v if r.f[0].conc else ex.concretize_int(r.f[0], list(range(n + 2)), 'slice start')
        e_ = r.f[1].v if r.f[1].conc else ex.concretize_int(r.f[1], list(range(n + 2)), 'slice end')
        if s_ > e_:
            raise Panic('slice index starts after end', c)
        if e_ > n:
            raise Panic('range end index out of range for slice', c)
        view = ListV('slice', l.items[s_:e_])
        return Ref({'v': view}, 'v')

    @M(r'^<(Vec<.*>|\[.*\]) as Index<(std::ops::)?(RangeTo|RangeFrom|RangeFull|RangeInclusive|RangeToInclusive)(<usize>)?>>::index$|^<(Vec<.*>|\[.*\]) as IndexMut<(std::ops::)?(Range|RangeTo|RangeFrom|RangeFull|RangeInclusive|RangeToInclusive)(<usize>)?>>::index_mut$')
    def index_other_ranges(ex, c, a):
        l = deref(a[0])
        r = a[1]
        n = len(l.items)
        kind = re.search(r'(RangeToInclusive|RangeInclusive|RangeTo|RangeFrom|RangeFull|Range)', c.split(' as ')[1]).group(1)
        cz = lambda x: x.v if x.conc else ex.concretize_int(x, list(range(n + 2)), 'slice bound')
        if kind == 'RangeTo':
            s_, e_ = 0, cz(r.f[0])
        elif kind == 'RangeFrom':
            s_, e_ = cz(r.f[0]), n
        elif kind == 'RangeFull':
            s_, e_ = 0, n
        elif kind == 'RangeInclusive':
            s_, e_ = cz(r.f[0]), cz(r.f[1]) + 1
        elif kind == 'RangeToInclusive':
            s_, e_ = 0, cz(r.f[0]) + 1
        else:
            s_, e_ = cz(r.f[0]), cz(r.f[1])
        if s_ > e_:
            raise Panic('slice index starts after end', c)
        if e_ > n:
            raise Panic('range end index out of range for slice', c)
        if 'index_mut' in c:
            view = ListV('slice')
            view.items = SubList(l.items, s_, e_)
            return Ref({'v': view}, 'v')
        view = ListV('slice', l.items[s_:e_])
        return Ref({'v': view}, 'v')

    @M(r'^std::slice::<impl \[.*\]>::to_vec$|^core::slice::<impl \[.*\]>::to_vec$|^<\[.*\]>::to_vec$')
    def slice_to_vec(ex, c, a):
        return ListV('Vec', [clone_val(x) for x in deref(a[0]).items])

    @M(r'^array::<impl \[.*; N\]>::as_slice$|^core::array::<impl \[.*\]>::as_slice$|^Vec::<.*>::as_slice$')
    def as_slice(ex, c, a):
        return a[0] if isinstance(a[0], Ref) else Ref({'v': a[0]}, 'v')

    @M(r'^<\[u8\] as PartialEq>::eq$|^<Vec<u8> as PartialEq>::eq$')
    def bytes_eq(ex, c, a):
        x, y = deref(a[0]).items, deref(a[1]).items
        if len(x) != len(y):
            return False
        return b_and(*[ex.binop('Eq', p, q, False) for p, q in zip(x, y)])

    @M(r'^<std::ops::Range<usize> as ExactSizeIterator>::len$')
    def range_len(ex, c, a):
        r = deref(a[0])
        lt = ex.binop('Lt', r.f[0], r.f[1], False)
        return b_ite_int(lt, ex.binop('Sub', r.f[1], r.f[0], False), Int(64, 0))

    @M(r'^std::ops::RangeInclusive::<usize>::(start|end)$')
    def range_incl_field(ex, c, a):
        r = deref(a[0])
        return Ref(r.f, 0 if c.endswith('start') else 1)

    @M(r'^std::ops::RangeInclusive::<usize>::new$')
    def range_incl_new(ex, c, a):
        return Agg('RangeInclusive', {0: a[0], 1: a[1], 2: False})

    @M(r'^<usize as Sub<&usize>>::sub$|^<&usize as Sub<usize>>::sub$|^<&usize as Sub<&usize>>::sub$')
    def usize_sub_ref(ex, c, a):
        r = ex.binop('SubWithOverflow', deref(a[0]), deref(a[1]), False)
        if ex.concretize_bool(r.f[1]):
            raise Panic('attempt to subtract with overflow', c)
        return r.f[0]

    @M(r'^<&usize as Add<usize>>::add$|^<usize as Add<&usize>>::add$|^<&usize as Add<&usize>>::add$')
    def usize_add_ref(ex, c, a):
        r = ex.binop('AddWithOverflow', deref(a[0]), deref(a[1]), False)
        if ex.concretize_bool(r.f[1]):
            raise Panic('attempt to add with overflow', c)
        return r.f[0]

    @M(r'^<.* as Iterator>::(cloned|copied)::<|^<.* as Iterator>::(cloned|copied)$')
    def iter_cloned(ex, c, a):
        it = a[0]
        return IterV(it.lst, it.mode, it.pos, it.adapt + [('cloned',)], it.end)

    @M(r'^<.* as Iterator>::rev$')
    def iter_rev(ex, c, a):
        it = a[0]
        items = []
        while True:
            nx = iter_next_val(ex, it)
            if nx.variant == 0:
                break
            items.append(nx.f[0])
        return IterV(ListV('reversed', list(reversed(items))), 'val')

    @M(r'^<.* as Iterator>::next$|^<.* as DoubleEndedIterator>::next_back$')
    def iter_next(ex, c, a):
        return any_next(ex, a[0].get(), c)

    @M(r'^<.* as Iterator>::sum::<(u\d+|usize)>$')
    def iter_sum(ex, c, a):
        it = a[0]
        w = INT_W[re.search(r'sum::<(\w+)>$', c).group(1)]
        tot = Int(w, 0)
        while True:
            nx = iter_next_val(ex, it)
            if nx.variant == 0:
                return tot
            r = ex.binop('AddWithOverflow', tot, nx.f[0], False)
            if ex.concretize_bool(r.f[1]):
                raise Panic('attempt to add with overflow (iterator sum)', c)
            tot = r.f[0]

    @M(r'^<.* as Iterator>::collect::<Vec<.*>>$|^<.* as Iterator>::collect::<VecDeque<.*>>$')
    def iter_collect(ex, c, a):
        it = a[0]
        out = []
        while True:
            nx = iter_next_val(ex, it)
            if nx.variant == 0:
                break
            out.append(nx.f[0])
        return ListV('VecDeque' if 'VecDeque' in c.split('collect::<')[1][:9] else 'Vec', out)

    @M(r'^<.* as Iterator>::count$')
    def iter_count(ex, c, a):
        it = a[0]
        n = 0
        while iter_next_val(ex, it).variant == 1:
            n += 1
        return Int(64, n)

    @M(r'^<.* as Iterator>::(all|any)::<')
    def iter_all(ex, c, a):
        it = a[0].get() if isinstance(a[0], Ref) else a[0]
        is_all = '::all::<' in c
        while True:
            nx = any_next(ex, it, c)
            if nx.variant == 0:
                return is_all
            r = ex.concretize_bool(ex.call_closure(a[1], [nx.f[0]]))
            if is_all and not r:
                return False
            if not is_all and r:
                return True

    @M(r'^<.* as Iterator>::try_for_each::<')
    def iter_try_for_each(ex, c, a):
        it = a[0].get() if isinstance(a[0], Ref) else a[0]
        rty = split_generic(re.search(r'try_for_each::<(.*)>$', c).group(1))[-1].strip()
        while True:
            nx = any_next(ex, it, c)
            if nx.variant == 0:
                break
            r = ex.call_closure(a[1], [nx.f[0]])
            if isinstance(r, Agg) and r.ty == 'Option' and r.variant == 0:
                return r
            if isinstance(r, Agg) and r.ty == 'Result' and r.variant == 1:
                return r
            if isinstance(r, Agg) and r.ty == 'ControlFlow' and r.variant == 1:
                return r
        if rty.startswith('Option') or rty.startswith('std::option::Option'):
            return some(UNIT)
        if rty.startswith('Result') or rty.startswith('std::result::Result'):
            return ok(UNIT)
        return Agg('ControlFlow', {0: UNIT}, 0)

    @M(r'^<.* as Iterator>::for_each::<')
    def iter_for_each(ex, c, a):
        it = a[0]
        while True:
            nx = any_next(ex, it, c)
            if nx.variant == 0:
                return UNIT
            ex.call_closure(a[1], [nx.f[0]])

    # ------------------------------------------------------------------ HashMap / FxHashMap: finite map by structural key equality
    def key_eq(ex, k1, k2):
        if isinstance(k1, Agg):
            acc = True
            if k1.variant != k2.variant and not (isinstance(k1.variant, Int) or isinstance(k2.variant, Int)):
                return False
            for f in k1.f:
                acc = b_and(acc, key_eq(ex, k1.f[f], k2.f[f]))
            return acc
        if isinstance(k1, ListV):
            if len(k1.items) != len(k2.items):
                return False
            return b_and(*[key_eq(ex, x, y) for x, y in zip(k1.items, k2.items)])
        if isinstance(k1, (Int, bool)) or z3.is_expr(k1):
            return ex.binop('Eq', k1, k2, False)
        raise Unsupported('map key component ' + repr(k1)[:40])

    def map_find(ex, m, key):
        for i, (k, v) in enumerate(m.items):
            if ex.concretize_bool(key_eq(ex, k, key)):
                return i
        return None

    @M(r'^<(std::collections::)?HashMap<.*> as Default>::default$|^HashMap::<.*>::new$|^HashMap::<.*>::default$')
    def hashmap_new(ex, c, a):
        return MapV('HashMap', [])

    @M(r'^HashMap::<.*>::entry$')
    def hashmap_entry(ex, c, a):
        # entries keep the &mut map (a Ref, never deep-copied by `copy` operands), not the map value itself
        m = a[0].get()
        i = map_find(ex, m, a[1])
        if i is None:
            return Agg('Entry', {0: Agg('VacantEntry', {0: a[0], 1: a[1]})}, 1)
        return Agg('Entry', {0: Agg('OccupiedEntry', {0: a[0], 1: i})}, 0)

    @M(r'^(std::collections::hash_map::)?Entry::<.*>::or_insert$')
    def entry_or_insert(ex, c, a):
        e = a[0]
        inner = e.f[0]
        m = inner.f[0].get()
        if e.variant == 0:
            return Ref(_PairRef(m.items, inner.f[1]), 1)
        m.items.append((inner.f[1], a[1]))
        return Ref(_PairRef(m.items, len(m.items) - 1), 1)

    @M(r'^(std::collections::hash_map::)?Entry::<.*>::(or_insert_with|or_default|or_insert_with_key)(::<.*)?$')
    def entry_or_insert_with(ex, c, a):
        e = a[0]
        inner = e.f[0]
        m = inner.f[0].get()
        if e.variant == 0:
            return Ref(_PairRef(m.items, inner.f[1]), 1)
        if 'or_default' in c:
            vt = split_generic(re.search(r'Entry::<(.*)>::or_default', c).group(1))[-1].strip()
            v = ex.call(f'<{vt} as Default>::default', [])
        elif 'or_insert_with_key' in c:
            h = {'k': inner.f[1]}
            v = _call_fn(ex, a[1], [Ref(h, 'k')])
        else:
            v = _call_fn(ex, a[1], [])
        m.items.append((inner.f[1], v))
        return Ref(_PairRef(m.items, len(m.items) - 1), 1)

    @M(r'^(std::collections::hash_map::)?Entry::<.*>::and_modify::<')
    def entry_and_modify(ex, c, a):
        e = a[0]
        if e.variant == 0:
            inner = e.f[0]
            _call_fn(ex, a[1], [Ref(_PairRef(inner.f[0].get().items, inner.f[1]), 1)])
        return e

    @M(r'^(std::collections::hash_map::)?Entry::<.*>::key$')
    def entry_key(ex, c, a):
        e = deref(a[0])
        inner = e.f[0]
        if e.variant == 0:
            return Ref(_PairRef(inner.f[0].get().items, inner.f[1]), 0)
        return Ref(inner.f, 1)

    @M(r'^(std::collections::hash_map::)?OccupiedEntry::<.*>::(get|get_mut)$')
    def occupied_get(ex, c, a):
        inner = deref(a[0])
        return Ref(_PairRef(inner.f[0].get().items, inner.f[1]), 1)

    @M(r'^(std::collections::hash_map::)?OccupiedEntry::<.*>::remove_entry$')
    def occupied_remove_entry(ex, c, a):
        inner = a[0]
        k, v = inner.f[0].get().items.pop(inner.f[1])
        return Agg('tuple', {0: k, 1: v})

    @M(r'^(std::collections::hash_map::)?OccupiedEntry::<.*>::remove$')
    def occupied_remove(ex, c, a):
        inner = a[0]
        k, v = inner.f[0].get().items.pop(inner.f[1])
        return v

    @M(r'^(std::collections::hash_map::)?VacantEntry::<.*>::insert$')
    def std_vacant_insert(ex, c, a):
        inner = a[0]
        m = inner.f[0].get()
        m.items.append((inner.f[1], a[1]))
        return Ref(_PairRef(m.items, len(m.items) - 1), 1)

    @M(r'^(std::collections::hash_map::)?OccupiedEntry::<.*>::insert$')
    def std_occupied_insert(ex, c, a):
        inner = deref(a[0])
        items = inner.f[0].get().items
        k, old = items[inner.f[1]]
        items[inner.f[1]] = (k, a[1])
        return old

    @M(r'^(std::collections::hash_map::)?OccupiedEntry::<.*>::into_mut$')
    def std_occupied_into_mut(ex, c, a):
        inner = a[0]
        return Ref(_PairRef(inner.f[0].get().items, inner.f[1]), 1)

    @M(r'^(std::collections::hash_map::)?(OccupiedEntry|VacantEntry)::<.*>::key$')
    def std_entry_inner_key(ex, c, a):
        inner = deref(a[0])
        if inner.ty == 'OccupiedEntry':
            return Ref(_PairRef(inner.f[0].get().items, inner.f[1]), 0)
        return Ref(inner.f, 1)

    @M(r'^HashMap::<.*>::remove::<')
    def hashmap_remove(ex, c, a):
        m = a[0].get()
        i = map_find(ex, m, deref(a[1]))
        if i is None:
            return none()
        k, v = m.items.pop(i)
        return some(v)

    @M(r'^HashMap::<.*>::(get|get_mut)::<')
    def hashmap_get(ex, c, a):
        m = deref(a[0])
        i = map_find(ex, m, deref(a[1]))
        if i is None:
            return none()
        return some(Ref(_PairRef(m.items, i), 1))

    @M(r'^HashMap::<.*>::insert$')
    def hashmap_insert(ex, c, a):
        m = a[0].get()
        i = map_find(ex, m, a[1])
        if i is None:
            m.items.append((a[1], a[2]))
            return none()
        old = m.items[i][1]
        m.items[i] = (m.items[i][0], a[2])
        return some(old)

    @M(r'^HashMap::<.*>::contains_key::<')
    def hashmap_contains(ex, c, a):
        return map_find(ex, deref(a[0]), deref(a[1])) is not None

    @M(r'^HashMap::<.*>::len$')
    def hashmap_len(ex, c, a):
        return Int(64, len(deref(a[0]).items))

    # ------------------------------------------------------------------ DashMap (same finite-map model; the guard types deref to the value)
    @M(r'^<(dashmap::)?DashMap<.*> as Default>::default$|^DashMap::<.*>::(new|default|with_hasher)$')
    def dashmap_new(ex, c, a):
        return MapV('DashMap', [])

    @M(r'^DashMap::<.*>::entry$')
    def dashmap_entry(ex, c, a):
        m = deref(a[0])
        i = map_find(ex, m, a[1])
        if i is None:
            return Agg('Entry', {0: Agg('VacantEntry', {0: a[0], 1: a[1]})}, 1)
        return Agg('Entry', {0: Agg('OccupiedEntry', {0: a[0], 1: i})}, 0)

    @M(r'^dashmap::mapref::entry::VacantEntry::<.*>::insert$')
    def dashmap_vacant_insert(ex, c, a):
        inner = a[0]
        m = deref(inner.f[0])
        m.items.append((inner.f[1], a[1]))
        return Agg('RefMut', {0: Ref(_PairRef(m.items, len(m.items) - 1), 1)})

    @M(r'^dashmap::mapref::entry::OccupiedEntry::<.*>::(get|get_mut)$')
    def dashmap_occupied_get(ex, c, a):
        inner = deref(a[0])
        return Ref(_PairRef(deref(inner.f[0]).items, inner.f[1]), 1)

    @M(r'^DashMap::<.*>::(get|get_mut)::<')
    def dashmap_get(ex, c, a):
        m = deref(a[0])
        i = map_find(ex, m, deref(a[1]))
        if i is None:
            return none()
        return some(Agg('DashRef', {0: Ref(_PairRef(m.items, i), 1)}))

    @M(r'^<dashmap::mapref::one::Ref(Mut)?<.*> as Deref(Mut)?>::deref(_mut)?$')
    def dashmap_ref_deref(ex, c, a):
        return deref(a[0]).f[0]

    @M(r'^DashMap::<.*>::insert$')
    def dashmap_insert(ex, c, a):
        m = deref(a[0])
        i = map_find(ex, m, a[1])
        if i is None:
            m.items.append((a[1], a[2]))
            return none()
        old = m.items[i][1]
        m.items[i] = (m.items[i][0], a[2])
        return some(old)

    @M(r'^DashMap::<.*>::remove::<')
    def dashmap_remove(ex, c, a):
        m = deref(a[0])
        i = map_find(ex, m, deref(a[1]))
        if i is None:
            return none()
        k, v = m.items.pop(i)
        return some(Agg('tuple', {0: k, 1: v}))

    @M(r'^DashMap::<.*>::contains_key::<')
    def dashmap_contains(ex, c, a):
        return map_find(ex, deref(a[0]), deref(a[1])) is not None

    @M(r'^DashMap::<.*>::len$')
    def dashmap_len(ex, c, a):
        return Int(64, len(deref(a[0]).items))

    # ------------------------------------------------------------------ TypeId / tracing level checks
    @M(r'^TypeId::of::<|^std::any::TypeId::of::<')
    def typeid_of(ex, c, a):
        t = re.search(r'of::<(.*)>$', c).group(1)
        import zlib
        return Agg('TypeId', {0: Int(64, zlib.crc32(t.split('::')[-1].encode()) + (1 << 40))})

    @M(r'^<TypeId as PartialEq>::(eq|ne)$')
    def typeid_eq(ex, c, a):
        r = ex.binop('Eq', deref(a[0]).f[0], deref(a[1]).f[0], False)
        return b_not(r) if c.endswith('ne') else r

    @M(r'^<Level as PartialOrd<LevelFilter>>::(le|lt|ge|gt)$|^<LevelFilter as PartialOrd<Level>>::')
    def tracing_level_disabled(ex, c, a):
        return False        # logging compiled out of the model: no event is enabled

    @M(r'^LevelFilter::current$|^DefaultCallsite::|^Interest::|^FieldSet::|^<DefaultCallsite as Callsite>::|^Metadata::|^ValueSet::|^Event::')
    def tracing_misc(ex, c, a):
        return Opaque('tracing')

    # ------------------------------------------------------------------ BTreeMap / BTreeSet: association list kept sorted by the crate's own Ord::cmp MIR
    def bt_key_type(c):
        m = re.match(r'^(?:std::collections::)?BTree(?:Map|Set)::<(.*)>::\w+(?:::<.*>)?$', c)
        if not m:
            raise Unsupported('BTree key type of ' + c)
        from .core import split_top
        return split_top(m.group(1))[0]

    def bt_cmp(ex, c, x, y):
        ty = bt_key_type(c)
        return cmp_ordering(ex, x, y, f'<{ty} as Ord>::cmp')

    def bt_find(ex, c, m, key):
        """returns (index, found): position of key or insertion point"""
        for i, (k, v) in enumerate(m.items):
            o = bt_cmp(ex, c, key, k)
            if o == 0:
                return i, True
            if o < 0:
                return i, False
        return len(m.items), False

    @M(r'^<(std::collections::)?BTree(Map|Set)<.*> as Default>::default$|^BTree(Map|Set)::<.*>::new$')
    def btree_new(ex, c, a):
        return MapV('BTreeSet' if 'BTreeSet' in c else 'BTreeMap', [])

    @M(r'^BTreeMap::<.*>::insert$')
    def btreemap_insert(ex, c, a):
        m = a[0].get()
        i, found = bt_find(ex, c, m, a[1])
        if found:
            old = m.items[i][1]
            m.items[i] = (m.items[i][0], a[2])       # std keeps the old key, replaces the value
            return some(old)
        m.items.insert(i, (a[1], a[2]))
        return none()

    # BTreeMap entry API (std::collections::btree_map::Entry: Vacant = 0, Occupied = 1)
    @M(r'^BTreeMap::<.*>::entry$')
    def btreemap_entry(ex, c, a):
        m = a[0].get()
        i, found = bt_find(ex, c, m, a[1])
        if found:
            return Agg('BEntry', {0: Agg('BOccupied', {0: a[0], 1: i})}, 1)
        return Agg('BEntry', {0: Agg('BVacant', {0: a[0], 1: a[1], 2: i})}, 0)

    def _bvacant_insert(inner, v):
        items = inner.f[0].get().items
        items.insert(inner.f[2], (inner.f[1], v))
        return Ref(_PairRef(items, inner.f[2]), 1)

    @M(r'^(std::collections::)?btree_map::Entry::<.*>::(or_insert|or_insert_with|or_default|or_insert_with_key)(::<.*)?$')
    def bentry_or_insert(ex, c, a):
        e = a[0]
        inner = e.f[0]
        if e.variant == 1:
            return Ref(_PairRef(inner.f[0].get().items, inner.f[1]), 1)
        if '::or_insert_with_key' in c:
            h = {'k': inner.f[1]}
            v = _call_fn(ex, a[1], [Ref(h, 'k')])
        elif '::or_insert_with' in c:
            v = _call_fn(ex, a[1], [])
        elif '::or_default' in c:
            vt = split_generic(re.search(r'Entry::<(.*)>::or_default', c).group(1))[-1].strip()
            v = default_of(ex, vt)
        else:
            v = a[1]
        return _bvacant_insert(inner, v)

    @M(r'^(std::collections::)?btree_map::Entry::<.*>::and_modify::<')
    def bentry_and_modify(ex, c, a):
        e = a[0]
        if e.variant == 1:
            inner = e.f[0]
            _call_fn(ex, a[1], [Ref(_PairRef(inner.f[0].get().items, inner.f[1]), 1)])
        return e

    @M(r'^(std::collections::)?btree_map::VacantEntry::<.*>::insert$')
    def bvacant_insert(ex, c, a):
        return _bvacant_insert(a[0], a[1])

    @M(r'^(std::collections::)?btree_map::OccupiedEntry::<.*>::(get|get_mut|into_mut)$')
    def boccupied_get(ex, c, a):
        inner = deref(a[0]) if not c.endswith('into_mut') else a[0]
        return Ref(_PairRef(inner.f[0].get().items, inner.f[1]), 1)

    @M(r'^(std::collections::)?btree_map::OccupiedEntry::<.*>::insert$')
    def boccupied_insert(ex, c, a):
        inner = deref(a[0])
        items = inner.f[0].get().items
        k, old = items[inner.f[1]]
        items[inner.f[1]] = (k, a[1])
        return old

    @M(r'^(std::collections::)?btree_map::OccupiedEntry::<.*>::(remove|remove_entry)$')
    def boccupied_remove(ex, c, a):
        inner = a[0]
        k, v = inner.f[0].get().items.pop(inner.f[1])
        return Agg('tuple', {0: k, 1: v}) if c.endswith('remove_entry') else v

    @M(r'^(std::collections::)?btree_map::(Entry|OccupiedEntry|VacantEntry)::<.*>::key$')
    def bentry_key(ex, c, a):
        x = deref(a[0])
        inner = x.f[0] if x.ty == 'BEntry' else x
        if inner.ty == 'BOccupied':
            return Ref(_PairRef(inner.f[0].get().items, inner.f[1]), 0)
        return Ref(inner.f, 1)

    @M(r'^BTreeSet::<.*>::insert$')
    def btreeset_insert(ex, c, a):
        m = a[0].get()
        i, found = bt_find(ex, c, m, a[1])
        if found:
            return False
        m.items.insert(i, (a[1], UNIT))
        return True

    @M(r'^BTreeMap::<.*>::remove::<')
    def btreemap_remove(ex, c, a):
        m = a[0].get()
        i, found = bt_find(ex, c, m, deref(a[1]))
        if not found:
            return none()
        return some(m.items.pop(i)[1])

    @M(r'^BTreeSet::<.*>::remove::<')
    def btreeset_remove(ex, c, a):
        m = a[0].get()
        i, found = bt_find(ex, c, m, deref(a[1]))
        if not found:
            return False
        m.items.pop(i)
        return True

    @M(r'^BTreeMap::<.*>::(get|get_mut)::<')
    def btreemap_get(ex, c, a):
        m = deref(a[0])
        i, found = bt_find(ex, c, m, deref(a[1]))
        return some(Ref(_PairRef(m.items, i), 1)) if found else none()

    @M(r'^BTreeSet::<.*>::contains::<|^BTreeMap::<.*>::contains_key::<')
    def btree_contains(ex, c, a):
        m = deref(a[0])
        return bt_find(ex, c, m, deref(a[1]))[1]

    @M(r'^BTree(Map|Set)::<.*>::len$')
    def btree_len(ex, c, a):
        return Int(64, len(deref(a[0]).items))

    @M(r'^BTree(Map|Set)::<.*>::is_empty$')
    def btree_is_empty(ex, c, a):
        return len(deref(a[0]).items) == 0

    @M(r'^BTreeMap::<.*>::iter$')
    def btreemap_iter(ex, c, a):
        m = deref(a[0])
        view = ListV('btree-iter', [Agg('tuple', {0: Ref(_PairRef(m.items, i), 0), 1: Ref(_PairRef(m.items, i), 1)}) for i in range(len(m.items))])
        return IterV(view, 'val')

    @M(r'^BTreeSet::<.*>::iter$')
    def btreeset_iter(ex, c, a):
        m = deref(a[0])
        view = ListV('btree-iter', [Ref(_PairRef(m.items, i), 0) for i in range(len(m.items))])
        return IterV(view, 'val')

    @M(r'^BTreeSet::<.*>::retain::<')
    def btreeset_retain(ex, c, a):
        m = a[0].get()
        keep = []
        for (k, v) in list(m.items):
            h = {'k': k}
            if ex.concretize_bool(ex.call_closure(a[1], [Ref(h, 'k')])):
                keep.append((k, v))
        m.items[:] = keep
        return UNIT

    @M(r'^<BTree(Map|Set)<.*> as Clone>::clone$')
    def btree_clone(ex, c, a):
        m = deref(a[0])
        return MapV(m.kind, [(clone_val(k), clone_val(v)) for k, v in m.items])

    @M(r'^<\[u8; \d+\] as (Ord|PartialOrd)>::(cmp|partial_cmp)$|^<\[u8\] as (Ord|PartialOrd)>::(cmp|partial_cmp)$')
    def bytes_cmp(ex, c, a):
        x, y = deref(a[0]).items, deref(a[1]).items
        if len(x) != len(y):
            raise Unsupported('compare arrays of different length')
        w = 8 * len(x)
        cat = lambda its: Int(w, sum(b.v << (8 * (len(its) - 1 - i)) for i, b in enumerate(its))) if all(b.conc for b in its) else Int(w, z3.Concat(*[b.z() for b in its]))
        r = ex.binop('Cmp', cat(x), cat(y), False)
        return some(r) if 'partial_cmp' in c else r

    @M(r'^<\[u8; \d+\] as PartialEq>::(eq|ne)$')
    def bytes_arr_eq(ex, c, a):
        x, y = deref(a[0]).items, deref(a[1]).items
        r = b_and(*[ex.binop('Eq', p, q, False) for p, q in zip(x, y)])
        return b_not(r) if c.endswith('ne') else r

    @M(r'^<\[u8; \d+\] as PartialOrd>::(lt|le|gt|ge)$')
    def bytes_arr_ord(ex, c, a):
        x, y = deref(a[0]).items, deref(a[1]).items
        w = 8 * len(x)
        cat = lambda its: Int(w, sum(b.v << (8 * (len(its) - 1 - i)) for i, b in enumerate(its))) if all(b.conc for b in its) else Int(w, z3.Concat(*[b.z() for b in its]))
        op = {'lt': 'Lt', 'le': 'Le', 'gt': 'Gt', 'ge': 'Ge'}[c.split('::')[-1]]
        return ex.binop(op, cat(x), cat(y), False)

    # ------------------------------------------------------------------ integer ranges as iterators
    @M(r'^<std::ops::Range<u(\d+|size)> as IntoIterator>::into_iter$')
    def range_into_iter(ex, c, a):
        return a[0]

    @M(r'^<std::ops::Range<u(\d+|size)> as Iterator>::next$')
    def range_next(ex, c, a):
        r = a[0].get()
        lt = ex.binop('Lt', r.f[0], r.f[1], False)
        if ex.concretize_bool(lt):
            cur = r.f[0]
            r.f[0] = ex.binop('Add', cur, Int(cur.w, 1), False)
            return some(cur)
        return none()

    @M(r'^<std::ops::Range<u(\d+|size)> as Iterator>::(all|any)::<')
    def range_all(ex, c, a):
        r = a[0].get() if isinstance(a[0], Ref) else a[0]
        is_all = '::all::<' in c
        n = 0
        while True:
            lt = ex.binop('Lt', r.f[0], r.f[1], False)
            if not ex.concretize_bool(lt):
                return is_all
            cur = r.f[0]
            r.f[0] = ex.binop('Add', cur, Int(cur.w, 1), False)
            res = ex.concretize_bool(ex.call_closure(a[1], [cur]))
            if is_all and not res:
                return False
            if not is_all and res:
                return True
            n += 1
            if n > 4096:
                raise Unsupported('range loop bound')

    # inclusive ranges: (start, end, exhausted)
    @M(r'^(std|core)::ops::RangeInclusive::<.*>::new$|^RangeInclusive::<.*>::new$')
    def rangeinc_new(ex, c, a):
        return Agg('RangeInclusive', {0: a[0], 1: a[1], 2: False})

    @M(r'^<(std|core)::ops::RangeInclusive<[ui](\d+|size)> as IntoIterator>::into_iter$')
    def rangeinc_into_iter(ex, c, a):
        return a[0]

    @M(r'^(std|core)::ops::RangeInclusive::<.*>::(start|end)$')
    def rangeinc_bounds(ex, c, a):
        r = deref(a[0])
        return Ref(r.f, 0 if c.endswith('start') else 1)

    @M(r'^<(std|core)::ops::RangeInclusive<[ui](\d+|size)> as Iterator>::next$')
    def rangeinc_next(ex, c, a):
        return _rangeinc_next(ex, a[0].get(), '<i' in c.replace('RangeInclusive<', '<'))

    @M(r'^<(std|core)::ops::RangeInclusive<[ui](\d+|size)> as Iterator>::(all|any)::<')
    def rangeinc_all(ex, c, a):
        r = a[0].get() if isinstance(a[0], Ref) else a[0]
        is_all = '::all::<' in c
        signed = 'RangeInclusive<i' in c
        n = 0
        while True:
            nx = _rangeinc_next(ex, r, signed)
            if nx.variant == 0:
                return is_all
            res = ex.concretize_bool(ex.call_closure(a[1], [nx.f[0]]))
            if is_all and not res:
                return False
            if not is_all and res:
                return True
            n += 1
            if n > 4096:
                raise Unsupported('range loop bound')

    @M(r'^(std|core)::ops::RangeInclusive::<.*>::into_inner$')
    def rangeinc_into_inner(ex, c, a):
        return Agg('tuple', {0: a[0].f[0], 1: a[0].f[1]})

    @M(r'^(std|core)::ops::RangeInclusive::<.*>::is_empty$|^<(std|core)::ops::RangeInclusive<.*> as ExactSizeIterator>::is_empty$')
    def rangeinc_is_empty(ex, c, a):
        r = deref(a[0])
        if r.f[2]:
            return True
        return ex.binop('Gt', r.f[0], r.f[1], bool(re.search(r'RangeInclusive(::)?<i', c)))

    @M(r'^(std|core)::ops::Range::<.*>::is_empty$')
    def range_is_empty(ex, c, a):
        r = deref(a[0])
        return ex.binop('Ge', r.f[0], r.f[1], bool(re.search(r'Range::<i', c)))

    @M(r'^(std|core)::ops::Range::<.*>::contains::<')
    def range_contains(ex, c, a):
        r = deref(a[0])
        x = deref(a[1])
        signed = bool(re.search(r'Range::<i', c))
        return b_and(ex.binop('Le', r.f[0], x, signed), ex.binop('Lt', x, r.f[1], signed))

    @M(r'^(std|core)::ops::RangeInclusive::<.*>::contains::<')
    def rangeinc_contains(ex, c, a):
        r = deref(a[0])
        x = deref(a[1])
        signed = bool(re.search(r'RangeInclusive::<i', c))
        return b_and(ex.binop('Le', r.f[0], x, signed), ex.binop('Le', x, r.f[1], signed))

    @M(r'^Vec::<.*>::resize$')
    def vec_resize(ex, c, a):
        l = a[0].get()
        n = a[1].v if a[1].conc else ex.concretize_int(a[1], list(range(0, 130)), 'resize length')
        if n < len(l.items):
            del l.items[n:]
        else:
            l.items.extend(clone_val(a[2]) for _ in range(n - len(l.items)))
        return UNIT

    @M(r'^<Vec<.*> as (IndexMut|Index)<usize>>::(index_mut|index)$')
    def vec_index(ex, c, a):
        l = deref(a[0])
        i = a[1]
        k = i.v if i.conc else ex.concretize_int(i, list(range(len(l.items) + 1)), 'index')
        if k >= len(l.items):
            raise Panic('index out of bounds', c)
        return Ref(l.items, k)

    @M(r'^<Vec<.*> as Deref>::deref$|^<Vec<.*> as DerefMut>::deref_mut$')
    def vec_deref(ex, c, a):
        return a[0]

    @M(r'^<&?u(\d+|size) as (Shr|Shl)<&?u(\d+|size)>>::(shr|shl)$')
    def ref_shift(ex, c, a):
        x, y = deref(a[0]), deref(a[1])
        # debug-profile semantics: shifting by >= width panics (overflow check)
        over = ex.binop('Ge', ex.cast(y, 'u64', 'IntToInt'), Int(64, x.w), False)
        if ex.concretize_bool(over):
            raise Panic('attempt to shift with overflow', c)
        return ex.binop('Shr' if c.endswith('shr') else 'Shl', x, y, False)

    @M(r'^<&?u(\d+|size) as (BitAnd|BitOr|BitXor)<&?u(\d+|size)>>::(bitand|bitor|bitxor)$')
    def ref_bitop(ex, c, a):
        op = {'bitand': 'BitAnd', 'bitor': 'BitOr', 'bitxor': 'BitXor'}[c.split('::')[-1]]
        return ex.binop(op, deref(a[0]), deref(a[1]), False)

    @M(r'^<(u\d+|usize) as Ord>::max$')
    def umax2(ex, c, a):
        return b_ite_int(ex.binop('Ge', a[0], a[1], False), a[0], a[1])

    # ------------------------------------------------------------------ more Vec / VecDeque / map / iterator methods (a changed tree may use any of them)
    @M(r'^(Vec|VecDeque)::<.*>::retain::<|^(Vec|VecDeque)::<.*>::retain_mut::<')
    def list_retain(ex, c, a):
        l = a[0].get()
        keep = []
        for x in list(l.items):
            h = {'x': x}
            if ex.concretize_bool(ex.tobool(ex.call_closure(a[1], [Ref(h, 'x')]))):
                keep.append(h['x'])
        l.items[:] = keep
        return UNIT

    @M(r'^(BTreeMap|HashMap|DashMap)::<.*>::retain::<')
    def map_retain(ex, c, a):
        m = deref(a[0])
        keep = []
        for (k, v) in list(m.items):
            hk, hv = {'k': k}, {'v': v}
            if ex.concretize_bool(ex.tobool(ex.call_closure(a[1], [Ref(hk, 'k'), Ref(hv, 'v')]))):
                keep.append((k, hv['v']))
        m.items[:] = keep
        return UNIT

    @M(r'^(Vec|VecDeque)::<.*>::insert$')
    def list_insert(ex, c, a):
        l = a[0].get()
        k = a[1].v if a[1].conc else ex.concretize_int(a[1], list(range(len(l.items) + 2)), 'insert index')
        if k > len(l.items):
            raise Panic('insertion index out of bounds', c)
        l.items.insert(k, a[2])
        return UNIT

    @M(r'^(Vec|VecDeque)::<.*>::truncate$')
    def list_truncate(ex, c, a):
        l = a[0].get()
        k = a[1].v if a[1].conc else ex.concretize_int(a[1], list(range(len(l.items) + 2)), 'truncate length')
        del l.items[k:]
        return UNIT

    @M(r'^(Vec|VecDeque)::<.*>::split_off$')
    def list_split_off(ex, c, a):
        l = a[0].get()
        k = a[1].v if a[1].conc else ex.concretize_int(a[1], list(range(len(l.items) + 2)), 'split_off index')
        if k > len(l.items):
            raise Panic('split_off index out of bounds', c)
        tail = l.items[k:]
        del l.items[k:]
        return ListV(l.kind, tail)

    @M(r'^(Vec|VecDeque)::<.*>::swap_remove$')
    def list_swap_remove(ex, c, a):
        l = a[0].get()
        k = a[1].v if a[1].conc else ex.concretize_int(a[1], list(range(len(l.items) + 1)), 'swap_remove index')
        if k >= len(l.items):
            raise Panic('swap_remove index out of bounds', c)
        last = l.items.pop()
        if k < len(l.items):
            out, l.items[k] = l.items[k], last
            return out
        return last

    @M(r'^(Vec|VecDeque)::<.*>::(first|first_mut)$')
    def list_first2(ex, c, a):
        l = deref(a[0])
        return some(Ref(l.items, 0)) if l.items else none()

    @M(r'^(Vec|VecDeque)::<.*>::(last|last_mut)$')
    def list_last2(ex, c, a):
        l = deref(a[0])
        return some(Ref(l.items, len(l.items) - 1)) if l.items else none()

    @M(r'^(Vec|VecDeque)::<.*>::(get|get_mut)::<usize>$|^Vec::<.*>::(get|get_mut)$')
    def vec_get(ex, c, a):
        l = deref(a[0])
        k = a[1].v if a[1].conc else ex.concretize_int(a[1], list(range(len(l.items) + 1)), 'get index')
        return some(Ref(l.items, k)) if k < len(l.items) else none()

    @M(r'^Vec::<.*>::extend::<|^VecDeque::<.*>::extend::<|^<(Vec|VecDeque)<.*> as Extend<.*>>::extend::<')
    def list_extend(ex, c, a):
        l = a[0].get()
        src = a[1]
        if isinstance(src, ListV):
            l.items.extend(src.items)
        elif isinstance(src, IterV):
            while True:
                nx = iter_next_val(ex, src)
                if nx.variant == 0:
                    break
                l.items.append(deref(nx.f[0]) if src.mode in ('ref', 'mut') and not src.adapt else nx.f[0])
        elif isinstance(src, Agg) and src.ty == 'Option':
            if src.variant == 1:
                l.items.append(src.f[0])
        elif isinstance(src, Agg) and src.ty in ('Range', 'RangeInclusive'):
            while True:
                nx = any_next(ex, src, c)
                if nx.variant == 0:
                    break
                l.items.append(nx.f[0])
        else:
            raise Unsupported('extend from ' + repr(src)[:40])
        return UNIT

    @M(r'^(core::slice::<impl \[.*\]>|<\[.*\]>|Vec::<.*>|VecDeque::<.*>)::contains$')
    def list_contains(ex, c, a):
        l = deref(a[0])
        x = deref(a[1])
        acc = False
        for it in l.items:
            acc = b_or(acc, ex.binop('Eq', it, x, False) if isinstance(it, (Int, bool)) else key_eq(ex, it, x))
        return acc

    @M(r'^(core::slice::<impl \[.*\]>|<\[.*\]>)::split_at$')
    def slice_split_at(ex, c, a):
        l = deref(a[0])
        k = a[1].v if a[1].conc else ex.concretize_int(a[1], list(range(len(l.items) + 2)), 'split_at index')
        if k > len(l.items):
            raise Panic('mid > len', c)
        return Agg('tuple', {0: Ref({'v': ListV('slice', l.items[:k])}, 'v'), 1: Ref({'v': ListV('slice', l.items[k:])}, 'v')})

    @M(r'^(VecDeque|Vec)::<.*>::(iter|iter_mut)$')
    def list_iter2(ex, c, a):
        return IterV(deref(a[0]), 'mut' if c.endswith('iter_mut') else 'ref')

    @M(r'^(BTreeMap|HashMap)::<.*>::(values|values_mut)$')
    def map_values(ex, c, a):
        m = deref(a[0])
        return IterV(ListV('values', [Ref(_PairRef(m.items, i), 1) for i in range(len(m.items))]), 'val')

    @M(r'^(BTreeMap|HashMap|BTreeSet)::<.*>::keys$')
    def map_keys(ex, c, a):
        m = deref(a[0])
        return IterV(ListV('keys', [Ref(_PairRef(m.items, i), 0) for i in range(len(m.items))]), 'val')

    @M(r'^HashMap::<.*>::(iter|iter_mut)$')
    def hashmap_iter(ex, c, a):
        m = deref(a[0])
        return IterV(ListV('map-iter', [Agg('tuple', {0: Ref(_PairRef(m.items, i), 0), 1: Ref(_PairRef(m.items, i), 1)}) for i in range(len(m.items))]), 'val')

    @M(r'^BTreeMap::<.*>::(first_key_value|last_key_value)$')
    def btree_first(ex, c, a):
        m = deref(a[0])
        if not m.items:
            return none()
        i = 0 if 'first' in c else len(m.items) - 1
        return some(Agg('tuple', {0: Ref(_PairRef(m.items, i), 0), 1: Ref(_PairRef(m.items, i), 1)}))

    @M(r'^BTreeSet::<.*>::(first|last)$')
    def btreeset_first(ex, c, a):
        m = deref(a[0])
        if not m.items:
            return none()
        return some(Ref(_PairRef(m.items, 0 if c.endswith('first') else len(m.items) - 1), 0))

    @M(r'^<.* as Iterator>::(filter|skip_while|take_while)::<')
    def iter_filter(ex, c, a):
        it = a[0]
        kind = re.search(r'::(filter|skip_while|take_while)::<', c).group(1)
        out = []
        state = 'skipping' if kind == 'skip_while' else 'taking'
        while True:
            nx = iter_next_val(ex, it)
            if nx.variant == 0:
                break
            v = nx.f[0]
            h = {'v': v}
            if kind == 'filter':
                if ex.concretize_bool(ex.tobool(ex.call_closure(a[1], [Ref(h, 'v')]))):
                    out.append(v)
            elif kind == 'take_while':
                if not ex.concretize_bool(ex.tobool(ex.call_closure(a[1], [Ref(h, 'v')]))):
                    break
                out.append(v)
            else:
                if state == 'skipping' and ex.concretize_bool(ex.tobool(ex.call_closure(a[1], [Ref(h, 'v')]))):
                    continue
                state = 'taking'
                out.append(v)
        return IterV(ListV('filtered', out), 'val')

    @M(r'^<.* as Iterator>::filter_map::<')
    def iter_filter_map(ex, c, a):
        it = a[0]
        out = []
        while True:
            nx = iter_next_val(ex, it)
            if nx.variant == 0:
                break
            r = ex.call_closure(a[1], [nx.f[0]])
            if r.variant == 1:
                out.append(r.f[0])
        return IterV(ListV('filtered', out), 'val')

    @M(r'^<.* as Iterator>::(find|find_map|position|rposition)::<')
    def iter_find(ex, c, a):
        it = a[0].get() if isinstance(a[0], Ref) else a[0]
        kind = re.search(r'::(find_map|find|position|rposition)::<', c).group(1)
        i = 0
        while True:
            nx = iter_next_val(ex, it)
            if nx.variant == 0:
                return none()
            v = nx.f[0]
            if kind == 'find_map':
                r = ex.call_closure(a[1], [v])
                if r.variant == 1:
                    return r
            else:
                h = {'v': v}
                arg = Ref(h, 'v') if kind == 'find' else v
                if ex.concretize_bool(ex.tobool(ex.call_closure(a[1], [arg]))):
                    return some(v) if kind == 'find' else some(Int(64, i))
            i += 1

    @M(r'^<.* as Iterator>::fold::<')
    def iter_fold(ex, c, a):
        it = a[0]
        acc = a[1]
        while True:
            nx = iter_next_val(ex, it)
            if nx.variant == 0:
                return acc
            acc = ex.call_closure(a[2], [acc, nx.f[0]])

    @M(r'^<.* as Iterator>::(enumerate|skip|take|step_by|chain|zip|peekable|fuse|by_ref)(::<.*>)?$')
    def iter_misc(ex, c, a):
        kind = re.search(r'::(enumerate|skip|take|step_by|chain|zip|peekable|fuse|by_ref)(::<.*>)?$', c).group(1)
        it = a[0].get() if isinstance(a[0], Ref) else a[0]
        if kind in ('peekable', 'fuse', 'by_ref'):
            return a[0]
        items = []
        while True:
            nx = iter_next_val(ex, it)
            if nx.variant == 0:
                break
            items.append(nx.f[0])
        if kind == 'enumerate':
            items = [Agg('tuple', {0: Int(64, i), 1: v}) for i, v in enumerate(items)]
        elif kind in ('skip', 'take', 'step_by'):
            k = a[1].v if a[1].conc else ex.concretize_int(a[1], list(range(len(items) + 2)), kind)
            items = items[k:] if kind == 'skip' else (items[:k] if kind == 'take' else items[::max(k, 1)])
        elif kind in ('chain', 'zip'):
            other = a[1]
            if isinstance(other, ListV):
                other = IterV(other, 'val')
            o_items = []
            while True:
                nx = iter_next_val(ex, other)
                if nx.variant == 0:
                    break
                o_items.append(nx.f[0])
            items = items + o_items if kind == 'chain' else [Agg('tuple', {0: x, 1: y}) for x, y in zip(items, o_items)]
        return IterV(ListV('adapted', items), 'val')

    @M(r'^<.* as Iterator>::last$')
    def iter_last(ex, c, a):
        it = a[0]
        r = none()
        while True:
            nx = iter_next_val(ex, it)
            if nx.variant == 0:
                return r
            r = nx

    @M(r'^<.* as Iterator>::(max|min)$|^<.* as Iterator>::(max_by_key|min_by_key)::<')
    def iter_minmax(ex, c, a):
        it = a[0]
        kind = re.search(r'::(max_by_key|min_by_key|max|min)', c).group(1)
        best, bestk = None, None
        while True:
            nx = iter_next_val(ex, it)
            if nx.variant == 0:
                break
            v = nx.f[0]
            if 'by_key' in kind:
                h = {'v': v}
                k = ex.call_closure(a[1], [Ref(h, 'v')])
            else:
                k = deref(v)
            if not isinstance(k, Int):
                raise Unsupported('min/max over non-integer keys')
            if best is None:
                best, bestk = v, k
            else:
                # std: max returns the LAST maximum, min the FIRST minimum
                better = ex.binop('Ge', k, bestk, False) if kind.startswith('max') else ex.binop('Lt', k, bestk, False)
                if ex.concretize_bool(better):
                    best, bestk = v, k
        return some(best) if best is not None else none()

    @M(r'^<.* as DoubleEndedIterator>::(rev|rfind)')
    def iter_rev2(ex, c, a):
        it = a[0]
        items = []
        while True:
            nx = iter_next_val(ex, it)
            if nx.variant == 0:
                break
            items.append(nx.f[0])
        return IterV(ListV('reversed', list(reversed(items))), 'val')

    @M(r'^<.* as Iterator>::collect::<(BTreeSet|HashSet)<')
    def iter_collect_set(ex, c, a):
        raise Unsupported('collect into a set')

    # ------------------------------------------------------------------ BinaryHeap (the std algorithm, element order = crate's Ord::cmp MIR)
    def heap_le(ex, c, x, y):
        ty = re.match(r'^BinaryHeap::<(.*)>::\w+$', c).group(1)
        return cmp_ordering(ex, x, y, f'<{ty} as Ord>::cmp') <= 0

    def sift_up(ex, c, data, start, pos):
        elem = data[pos]
        while pos > start:
            parent = (pos - 1) // 2
            if heap_le(ex, c, elem, data[parent]):
                break
            data[pos] = data[parent]
            pos = parent
        data[pos] = elem
        return pos

    @M(r'^BinaryHeap::<.*>::push$')
    def heap_push(ex, c, a):
        data = a[0].get().items
        data.append(a[1])
        sift_up(ex, c, data, 0, len(data) - 1)
        return UNIT

    @M(r'^BinaryHeap::<.*>::peek$')
    def heap_peek(ex, c, a):
        l = deref(a[0])
        return some(Ref(l.items, 0)) if l.items else none()

    @M(r'^BinaryHeap::<.*>::pop$')
    def heap_pop(ex, c, a):
        data = a[0].get().items
        if not data:
            return none()
        item = data.pop()
        if data:
            item, data[0] = data[0], item
            # sift_down_to_bottom(0)
            end = len(data)
            pos = 0
            elem = data[0]
            child = 1
            while child <= max(end - 2, 0) and end >= 2 and child <= end - 2:
                if heap_le(ex, c, data[child], data[child + 1]):
                    child += 1
                data[pos] = data[child]
                pos = child
                child = 2 * pos + 1
            if child == end - 1:
                data[pos] = data[child]
                pos = child
            data[pos] = elem
            sift_up(ex, c, data, 0, pos)
        return some(item)

    @M(r'^BinaryHeap::<.*>::len$')
    def heap_len(ex, c, a):
        return Int(64, len(deref(a[0]).items))

    # ------------------------------------------------------------------ Duration (u64 nanoseconds)
    @M(r'^Duration::from_secs$|^std::time::Duration::from_secs$')
    def dur_secs(ex, c, a):
        return ex.binop('Mul', a[0], Int(64, 10 ** 9), False)

    @M(r'^Duration::from_millis$|^std::time::Duration::from_millis$')
    def dur_millis(ex, c, a):
        return ex.binop('Mul', a[0], Int(64, 10 ** 6), False)

    @M(r'^<Duration as Mul<u32>>::mul$')
    def dur_mul(ex, c, a):
        return ex.binop('Mul', a[0], ex.cast(a[1], 'u64', 'IntToInt'), False)

    @M(r'^<u32 as Mul<Duration>>::mul$')
    def dur_mul2(ex, c, a):
        return ex.binop('Mul', a[1], ex.cast(a[0], 'u64', 'IntToInt'), False)

    @M(r'^<Duration as PartialOrd>::(lt|le|gt|ge)$')
    def dur_cmp(ex, c, a):
        op = {'lt': 'Lt', 'le': 'Le', 'gt': 'Gt', 'ge': 'Ge'}[c.split('::')[-1]]
        return ex.binop(op, deref(a[0]), deref(a[1]), False)

    @M(r'^<Duration as PartialEq>::(eq|ne)$')
    def dur_eq(ex, c, a):
        r = ex.binop('Eq', deref(a[0]), deref(a[1]), False)
        return b_not(r) if c.endswith('ne') else r

    @M(r'^<Duration as Sub>::sub$')
    def dur_sub(ex, c, a):
        r = ex.binop('SubWithOverflow', a[0], a[1], False)
        if ex.concretize_bool(r.f[1]):
            raise Panic('overflow when subtracting durations', c)
        return r.f[0]

    @M(r'^<Duration as SubAssign>::sub_assign$')
    def dur_sub_assign(ex, c, a):
        cur = a[0].get()
        r = ex.binop('SubWithOverflow', cur, a[1], False)
        if ex.concretize_bool(r.f[1]):
            raise Panic('overflow when subtracting durations', c)
        a[0].set(r.f[0])
        return UNIT

    @M(r'^<Duration as Add>::add$')
    def dur_add(ex, c, a):
        r = ex.binop('AddWithOverflow', a[0], a[1], False)
        if ex.concretize_bool(r.f[1]):
            raise Panic('overflow when adding durations', c)
        return r.f[0]

    # ------------------------------------------------------------------ Into / From via crate impls
    @M(r'^<(.*) as Into<(.*)>>::into$')
    def into_via_from(ex, c, a):
        m = re.match(r'^<(.*) as Into<(.*)>>::into$', c)
        if m.group(1) == m.group(2):
            return a[0]
        f = ex.resolve(f'<{m.group(2)} as From<{m.group(1)}>>::from')
        if f is None:
            raise Unsupported('into ' + c)
        return ex.run(f, a)

    @M(r'^<(.*) as From<\1>>::from$')
    def from_self(ex, c, a):
        return a[0]

    @M(r'^<(.*) as PartialEq>::ne$')
    def ne_via_eq(ex, c, a):
        f = ex.resolve(c[:-2] + 'eq')
        if f is None:
            raise Unsupported('ne ' + c)
        return b_not(ex.tobool(ex.run(f, a)))

    @M(r'^<(.*) as PartialOrd>::(lt|le|gt|ge)$')
    def cmp_via_partial(ex, c, a):
        m = re.match(r'^<(.*) as PartialOrd>::(lt|le|gt|ge)$', c)
        f = ex.resolve(f'<{m.group(1)} as PartialOrd>::partial_cmp') or ex.resolve(f'<{m.group(1)} as Ord>::cmp')
        if f is None:
            raise Unsupported(c)
        r = ex.run(f, a)
        if r.ty == 'Option':
            r = r.f[0]
        v = r.variant
        op = m.group(2)
        if v.conc:
            s = v.signed_val()
            return {'lt': s < 0, 'le': s <= 0, 'gt': s > 0, 'ge': s >= 0}[op]
        lt, eq = v.v == z3.BitVecVal(255, 8), v.v == z3.BitVecVal(0, 8)
        return mk_bool(z3.simplify({'lt': lt, 'le': z3.Or(lt, eq), 'gt': z3.And(z3.Not(lt), z3.Not(eq)), 'ge': z3.Not(lt)}[op]))

    # ------------------------------------------------------------------ formatting / logging: no-ops
    @M(r'^(core|std)::fmt::|^Arguments::<|^std::fmt::Arguments|tracing|^log::|^std::io::_print|^core::panicking::panic_fmt|__tracing|^(tracing_core|tracing)::')
    def fmt_noop(ex, c, a):
        if 'panic' in c:
            raise Panic('panic_fmt', c)
        return Opaque('fmt')


class _PairRef:
    """mutable view of an association-list entry: index 0 = key, 1 = value"""

    def __init__(self, items, i):
        self.items, self.i = items, i

    def __getitem__(self, k):
        return self.items[self.i][k]

    def __setitem__(self, k, v):
        e = list(self.items[self.i])
        e[k] = v
        self.items[self.i] = tuple(e)


class SubList:
    """write-through window [s, e) of a python list (backing store of a `&mut v[a..b]` view)"""

    def __init__(self, base, s, e):
        self.base, self.s, self.e = base, s, e

    def __len__(self):
        return self.e - self.s

    def _ix(self, i):
        n = self.e - self.s
        if i < 0:
            i += n
        if not 0 <= i < n:
            raise IndexError(i)
        return self.s + i

    def __getitem__(self, i):
        if isinstance(i, slice):
            return [self.base[self.s + k] for k in range(*i.indices(self.e - self.s))]
        return self.base[self._ix(i)]

    def __setitem__(self, i, v):
        self.base[self._ix(i)] = v

    def __iter__(self):
        return (self.base[k] for k in range(self.s, self.e))


def default_of(ex, ty):
    """<ty as Default>::default() for the types that occur as values"""
    ty = ty.strip()
    m = re.match(r'^[ui](\d+|size)$', ty)
    if m:
        return Int(64 if m.group(1) == 'size' else int(m.group(1)), 0)
    if ty == 'bool':
        return False
    if ty == '()':
        return UNIT
    if ty.startswith('(') and ty.endswith(')'):
        parts = [x for x in split_generic(ty[1:-1]) if x.strip()]
        return Agg('tuple', {i: default_of(ex, x) for i, x in enumerate(parts)})
    if re.match(r'^(std::option::)?Option<', ty):
        return none()
    if re.match(r'^(std::vec::)?Vec<', ty):
        return ListV('Vec', [])
    if re.match(r'^(std::collections::)?VecDeque<', ty):
        return ListV('VecDeque', [])
    return ex.call(f'<{ty} as Default>::default', [])


def _rangeinc_next(ex, r, signed=False):
    if r.f[2]:
        return none()
    if not ex.concretize_bool(ex.binop('Le', r.f[0], r.f[1], signed)):
        r.f[2] = True
        return none()
    cur = r.f[0]
    if ex.concretize_bool(ex.binop('Lt', cur, r.f[1], signed)):
        r.f[0] = ex.binop('Add', cur, Int(cur.w, 1), False)
    else:
        r.f[2] = True
    return some(cur)


def any_next(ex, it, c=''):
    """next() on whatever stands for an iterator: IterV, an integer Range / RangeInclusive aggregate, or an object with mirx_next"""
    if isinstance(it, Agg) and it.ty == 'Range':
        return _range_next(ex, it)
    if isinstance(it, Agg) and it.ty == 'RangeInclusive':
        return _rangeinc_next(ex, it, bool(re.search(r'RangeInclusive<i', c)))
    if hasattr(it, 'mirx_next'):
        return it.mirx_next(ex)
    if isinstance(it, IterV):
        return iter_next_val(ex, it)
    raise Unsupported('next on ' + repr(it)[:60])


def _range_next(ex, r):
    lt = ex.binop('Lt', r.f[0], r.f[1], False)
    if ex.concretize_bool(lt):
        cur = r.f[0]
        r.f[0] = ex.binop('Add', cur, Int(cur.w, 1), False)
        return some(cur)
    return none()


def _fn_item_name(what):
    # "fn(u32) -> Ipv4Address {<Ipv4Address as From<u32>>::from}"
    m = re.search(r'\{(.*)\}$', what)
    return m.group(1) if m else what


def split_generic(s):
    from .core import split_top
    return split_top(s)


def clone_elem(ex, x, c):
    if isinstance(x, (Int, bool)) or (not isinstance(x, (Agg, ListV, MapV)) and not hasattr(x, 'mirx_clone')):
        return x
    if hasattr(x, 'mirx_clone'):
        return x.mirx_clone()
    if isinstance(x, Agg):
        f = ex.resolve(f'<{x.ty} as Clone>::clone')
        if f is not None:
            h = {'v': x}
            return ex.run(f, [Ref(h, 'v')])
    return clone_val(x)


def iter_next_val(ex, it):
    """advance IterV, apply adaptors; returns Option Agg"""
    fm = None
    for j, ad in enumerate(it.adapt):
        if ad[0] == 'flatmap':
            fm = j
            break
    if fm is not None:
        outer_adapt, closure, rest = it.adapt[:fm], it.adapt[fm][1], it.adapt[fm + 1:]
        while True:
            if it.inner is None:
                saved = it.adapt
                it.adapt = outer_adapt
                nx = iter_next_val(ex, it)
                it.adapt = saved
                if nx.variant == 0:
                    return none()
                inner = ex.call_closure(closure, [nx.f[0]])
                # the closure returns any IntoIterator: an iterator, a collection by value, a reference to a collection / slice, an Option
                if isinstance(inner, Ref) and isinstance(inner.get(), ListV):
                    inner = IterV(inner.get(), 'ref')
                elif isinstance(inner, ListV):
                    inner = IterV(inner, 'val')
                elif isinstance(inner, Agg) and inner.ty == 'Option':
                    inner = IterV(ListV('Vec', [inner.f[0]] if inner.variant == 1 else []), 'val')
                if not isinstance(inner, IterV):
                    raise Unsupported('flat_map closure did not return an iterator model')
                it.inner = inner
            v = iter_next_val(ex, it.inner)
            if v.variant == 0:
                it.inner = None
                continue
            v = v.f[0]
            for ad in rest:
                if ad[0] == 'map':
                    v = ex.call_closure(ad[1], [v])
                elif ad[0] == 'cloned':
                    v = clone_val(deref(v))
            return some(v)
    idx = None
    for ad in it.adapt:
        if ad[0] == 'revidx':
            idx = ad[1]
    n = len(it.lst.items)
    if idx is not None:
        if it.pos >= idx:
            return none()
        k = idx - 1 - it.pos
    else:
        if it.pos >= n:
            return none()
        k = it.pos
    it.pos += 1
    v = Ref(it.lst.items, k) if it.mode in ('ref', 'mut') else it.lst.items[k]
    for ad in it.adapt:
        if ad[0] == 'map':
            v = ex.call_closure(ad[1], [v])
        elif ad[0] == 'cloned':
            v = clone_val(deref(v))
    return some(v)
