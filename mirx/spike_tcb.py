#!/usr/bin/env python3
import sys, re, time, copy
sys.path.insert(0, '/tmp/mirspike')
from mirx import *
import z3

MIR = '/tmp/mirprobe/mir.txt'
SRC = '/tmp/mirprobe/elvis-core'

fns = parse_mir(open(MIR).read())
print('parsed fns', len(fns))
ex = Exec(fns, parse_enums(SRC + '/src'))
ex.src_root = SRC
ex.consts = {}

def U(w): return lambda name: z3.BitVec(name, w)

# ---------------- intrinsics
I = ex.intrinsics
def intr(pat):
    def d(fn): I[pat] = fn; return fn
    return d

@intr(r'^core::num::<impl u\d+>::wrapping_add$')
def _(ex, c, a): return a[0] + a[1]
@intr(r'^core::num::<impl u\d+>::wrapping_sub$')
def _(ex, c, a): return a[0] - a[1]
@intr(r'^<u(size|\d+) as Ord>::min$')
def _(ex, c, a): return z3.If(z3.ULE(a[0], a[1]), a[0], a[1])
@intr(r'^Message::len$')
def _(ex, c, a): return a[0].get().len
@intr(r'^Message::is_empty$')
def _(ex, c, a): return a[0].get().len == 0
@intr(r'^Message::iter$')
def _(ex, c, a): return ('msgiter', a[0])
@intr(r'^<Message as Default>::default$')
def _(ex, c, a): return MsgV(bv(0, 64))
@intr(r'^Message::slice::<')
def _(ex, c, a):
    m = a[0].get(); r = a[1]
    s, e = r.f[0], r.f[1]
    # real code: assert!(start + len <= self.len()) where len = end-start (Range::len saturating)
    ln = z3.If(z3.ULE(s, e), e - s, bv(0, 64))
    lab = ex.branch([('ok', z3.ULE(s + ln, m.len)), ('fail', z3.UGT(s + ln, m.len))])
    if lab == 'fail': raise Panic('Message::slice out of range')
    m.len = ln
    return UNIT
@intr(r'^Message::concatenate$')
def _(ex, c, a):
    m = a[0].get(); m.len = m.len + a[1].len; return UNIT
@intr(r'^Message::cut$')
def _(ex, c, a):
    m = a[0].get(); n = a[1]
    lab = ex.branch([('ok', z3.ULE(n, m.len)), ('fail', z3.UGT(n, m.len))])
    if lab == 'fail': raise Panic('Message::cut out of range')
    m.len = m.len - n
    return MsgV(n)
@intr(r'^std::mem::take::<')
def _(ex, c, a):
    r = a[0]; old = r.get()
    if isinstance(old, MsgV): r.set(MsgV(bv(0, 64)))
    elif isinstance(old, ListV): r.set(ListV(old.kind, []))
    else: raise Unsupported('take ' + repr(old))
    return old
@intr(r'^(Vec|VecDeque)::<.*>::(push|push_back)$')
def _(ex, c, a): a[0].get().items.append(a[1]); return UNIT
@intr(r'^VecDeque::<.*>::get$')
def _(ex, c, a):
    l = a[0].get(); i = a[1]
    opts = [(k, i == bv(k, 64)) for k in range(len(l.items))] + [('none', z3.UGE(i, bv(len(l.items), 64)))]
    k = ex.branch(opts)
    if k == 'none': return Agg('Option', {}, variant=0)
    return Agg('Option', {0: Ref(l.items, k)}, variant=1)
@intr(r'^VecDeque::<.*>::remove$')
def _(ex, c, a):
    l = a[0].get(); i = a[1]
    opts = [(k, i == bv(k, 64)) for k in range(len(l.items))] + [('none', z3.UGE(i, bv(len(l.items), 64)))]
    k = ex.branch(opts)
    if k == 'none': return Agg('Option', {}, variant=0)
    return Agg('Option', {0: l.items.pop(k)}, variant=1)
@intr(r'^(VecDeque|Vec)::<.*>::iter_mut$')
def _(ex, c, a): return IterV(a[0].get(), True)
@intr(r'^(VecDeque|Vec)::<.*>::iter$')
def _(ex, c, a): return IterV(a[0].get(), False)
@intr(r' as IntoIterator>::into_iter$')
def _(ex, c, a): return a[0]
@intr(r'(IterMut|Iter)<.*> as Iterator>::next$')
def _(ex, c, a):
    it = a[0].get()
    if it.pos >= len(it.lst.items): return Agg('Option', {}, variant=0)
    it.pos += 1
    return Agg('Option', {0: Ref(it.lst.items, it.pos - 1)}, variant=1)
@intr(r'^Vec::<.*>::is_empty$')
def _(ex, c, a): return z3.BoolVal(len(a[0].get().items) == 0)
@intr(r'^Result::<.*>::(unwrap|expect)$')
def _(ex, c, a):
    if a[0].variant != 0: raise Panic('unwrap on Err')
    return a[0].f[0]
@intr(r'^Option::<.*>::(unwrap|expect)$')
def _(ex, c, a):
    if a[0].variant != 1: raise Panic('unwrap on None')
    return a[0].f[0]
@intr(r'^TcpHeaderBuilder::build::<')
def _(ex, c, a):
    # real MIR of build with the text iterator opaque; text_len arg decides OverlyLongPayload
    f = ex.resolve('TcpHeaderBuilder::build')
    return ex.run(f, a)
@intr(r'accumulate_remainder')
def _(ex, c, a): return UNIT
@intr(r'^<usize as TryInto<u16>>::try_into$')
def _(ex, c, a):
    v = a[0]
    lab = ex.branch([('ok', z3.ULE(v, bv(65535, 64))), ('err', z3.UGT(v, bv(65535, 64)))])
    if lab == 'ok': return Agg('Result', {0: z3.Extract(15, 0, v)}, variant=0)
    return Agg('Result', {0: UNIT}, variant=1)
@intr(r'^Result::<.*>::map_err::<')
def _(ex, c, a):
    r = a[0]
    if r.variant == 0: return r
    return Agg('Result', {0: Agg('BuildHeaderError', {}, variant=0)}, variant=1)
@intr(r'^<.* as Try>::branch$')
def _(ex, c, a):
    r = a[0]
    # ControlFlow: Continue=0(payload), Break=1(residual)
    if r.variant == 0: return Agg('ControlFlow', {0: r.f[0]}, variant=0)
    return Agg('ControlFlow', {0: Agg('Result', {0: r.f[0]}, variant=1)}, variant=1)
@intr(r'^<.* as FromResidual<.*>>::from_residual$')
def _(ex, c, a): return a[0]
@intr(r'^<ipv4_address::Ipv4Address as Into<\[u8; 4\]>>::into$')
def _(ex, c, a): return ('opaque4',)
@intr(r'^(utility::)?Checksum::(add_u32|add_u8|add_u16)$')
def _(ex, c, a): return UNIT
@intr(r'^<(.*) as Into<(.*)>>::into$')
def _(ex, c, a):
    m = re.match(r'^<(.*) as Into<(.*)>>::into$', c)
    f = ex.resolve(f'<{m.group(2)} as From<{m.group(1)}>>::from')
    if f is None: raise Unsupported('into ' + c)
    return ex.run(f, a)
@intr(r'^<\[u8; 0\] as IntoIterator>::into_iter$')
def _(ex, c, a): return ('emptyiter',)
# Duration as bv64 nanoseconds
@intr(r'^Duration::from_secs$')
def _(ex, c, a): return a[0] * bv(10**9, 64)
@intr(r'^Duration::from_millis$')
def _(ex, c, a): return a[0] * bv(10**6, 64)
@intr(r'^<Duration as Mul<u32>>::mul$')
def _(ex, c, a): return a[0] * z3.ZeroExt(32, a[1])
@intr(r'^<u32 as Mul<Duration>>::mul$')
def _(ex, c, a): return a[1] * z3.ZeroExt(32, a[0])

@intr(r'^<u(\d+) as Default>::default$')
def _(ex, c, a): return bv(0, int(re.search(r'u(\d+)', c).group(1)))
@intr(r'^<bool as Default>::default$')
def _(ex, c, a): return z3.BoolVal(False)

@intr(r'^core::num::<impl u\d+>::to_be_bytes$')
def _(ex, c, a): return ('opaquebytes', a[0])

@intr(r'^<(\w+) as PartialEq>::ne$')
def _(ex, c, a):
    f = ex.resolve(c[:-2] + 'eq')
    if f is None: raise Unsupported('ne ' + c)
    return z3.Not(ex.tobool(ex.run(f, a)))

# consts: evaluate simple ones by hand for the spike
#ex.consts['MSL'] = bv(10**9, 64)
# = bv(10**8, 64)
# = bv(50, 16)
# = bv(5, 8)
# = bv(20, 8)

# ---------------- test 1: mod_bounded translation invariance
def t1():
    a, b, c, k = [z3.BitVec(n, 32) for n in 'abck']
    viol = []
    for c1 in (0, 1):
        for c2 in (0, 1):
            def setup(ex): return None
            def body(ex, st):
                f = ex.resolve('modular_cmp::mod_bounded')
                m1 = Agg('ModCmp', {}, variant=c1); m2 = Agg('ModCmp', {}, variant=c2)
                r1 = ex.run(f, [a, m1, b, m2, c])
                r2 = ex.run(f, [a + k, copy.deepcopy(m1), b + k, copy.deepcopy(m2), c + k])
                return (r1, r2)
            def on_end(ex, st, res):
                kind, r = res
                assert kind == 'ok'
                s, m = ex.check([r[0] != r[1]])
                if s == z3.sat: viol.append((c1, c2, m))
            ex.explore(setup, body, on_end)
    print('t1 violations', viol, ex.stats)



# ---------------- test 2: process_segment no-panic from symbolic state
STATE_N = 9
def mk_header(p):
    return Agg('TcpHeader', {0: z3.BitVec(p+'sport', 16), 1: z3.BitVec(p+'dport', 16), 2: z3.BitVec(p+'seq', 32), 3: z3.BitVec(p+'ack', 32),
                             4: bv(5, 8), 5: Agg('Control', {0: z3.BitVec(p+'ctl', 8)}), 6: z3.BitVec(p+'wnd', 16), 7: bv(0, 16), 8: bv(0, 16)})
def mk_tcb(nretx):
    ep = lambda p: Agg('Endpoint', {0: Agg('Ipv4Address', {0: z3.BitVec(p+'ip', 32)}), 1: z3.BitVec(p+'port', 16)})
    retx = []
    for i in range(nretx):
        h = mk_header(f'rt{i}_')
        retx.append(Agg('Transmit', {0: Agg('Segment', {0: h, 1: MsgV(z3.ZeroExt(48, z3.BitVec(f'rt{i}_len', 16)))}), 1: z3.Bool(f'rt{i}_need')}))
    st = z3.BitVec('state', 64)
    tcb = Agg('Tcb', {
        0: Agg('Endpoints', {0: ep('l'), 1: ep('r')}),
        1: z3.BitVec('mtu', 16),
        2: Agg('Initiation', {}, variant=z3.BitVec('init', 64)),
        3: Agg('State', {}, variant=st),
        4: Agg('Snd', {0: z3.BitVec('una', 32), 1: z3.BitVec('nxt', 32), 2: z3.BitVec('swnd', 16), 3: z3.BitVec('wl1', 32), 4: z3.BitVec('wl2', 32), 5: z3.BitVec('iss', 32)}),
        5: Agg('Rcv', {0: z3.BitVec('irs', 32), 1: z3.BitVec('rnxt', 32), 2: z3.BitVec('rwnd', 16)}),
        6: Agg('Outgoing', {0: MsgV(z3.ZeroExt(32, z3.BitVec('otext', 32))), 1: ListV('VecDeque', retx), 2: ListV('Vec', [])}),
        7: Agg('Incoming', {0: ListV('BinaryHeap', []), 1: MsgV(z3.ZeroExt(48, z3.BitVec('itext', 16)))}),
        8: Agg('Timeouts', {0: z3.BitVec('rto', 64), 1: Agg('Option', {}, variant=0)}),
    })
    return tcb, st

def t2(nretx=1):
    panics = {}
    count = {'ok': 0, 'panic': 0}
    def setup(ex):
        tcb, st = mk_tcb(nretx)
        import os
        if os.environ.get('STATE'): ex.assume(st == bv(int(os.environ['STATE']), 64))
        ex.assume(z3.ULT(st, bv(STATE_N, 64)))
        ex.assume(z3.ULT(tcb.f[2].variant, bv(2, 64)))
        seg = Agg('Segment', {0: mk_header('s_'), 1: MsgV(z3.ZeroExt(48, z3.BitVec('s_len', 16)))})
        ex.assume(z3.ULE(seg.f[0].f[5].f[0], bv(63, 8)))
        holder = {'tcb': tcb}
        return (holder, seg)
    def body(ex, st):
        holder, seg = st
        f = ex.resolve('Tcb::process_segment')
        return ex.run(f, [Ref(holder, 'tcb'), seg])
    def on_end(ex, st, res):
        kind, r = res
        count[kind] += 1
        if kind == 'panic':
            if r not in panics:
                s, m = ex.check([])
                panics[r] = m
    ex.stats = {'paths':0, 'solver_calls':0, 'solver_time':0.0}
    ex.explore(setup, body, on_end)
    print('t2', count, ex.stats)
    for k, m in panics.items():
        print('PANIC:', k)
        if m is not None:
            names = ['state', 's_seq', 's_ack', 's_ctl', 's_len', 's_wnd', 'rnxt', 'rwnd', 'una', 'nxt', 'itext']
            print('   ', {str(d): m[d] for d in m.decls() if str(d) in names})

t0 = time.time()
try:
    t2(int(sys.argv[1]) if len(sys.argv) > 1 else 1)
except Unsupported as e:
    print('UNSUPPORTED', e)
    raise
print('t2 time', time.time() - t0)
