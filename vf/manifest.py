#!/usr/bin/env python3
"""Regenerates /verif/MANIFEST.json from the per-property modules (props/cXX.py: MANIFEST dict)
and the not-applicable list below.  Run: python3 vf/manifest.py"""
import importlib, json, os, sys
sys.path.insert(0, os.path.dirname(os.path.dirname(os.path.abspath(__file__))))

NOT_APPLICABLE = {
    'C02': 'Socket/TcpSession/mpsc hand-off is async code on the tokio runtime (tasks, channels, select!); its MIR is coroutine state machines whose behaviour is the scheduler\'s; neither Kani nor a MIR symbolic executor can encode the runtime (DESIGN 4/C02).',
    'C05': 'Network::send is async (sleep, Notify, spawn, DashMap iteration); latency/throughput are tokio-timer behaviour; only a one-line MTU comparison is synchronous (DESIGN 4/C05).',
    'C06': 'Arp::resolve (retry loop, timeout, watch-channel wake-up, failure cache, gateway substitution) is an async coroutine; only the responder half is synchronous (DESIGN 4/C06).',
    'C13': 'run_internet / Machine::start / Shutdown are tokio Barrier, JoinSet, broadcast, select!, timeout and process::exit: scheduling is the property (DESIGN 4/C13).',
    'C19': 'NDL parser/generator are String/HashMap(RandomState)/nom/format!/file-I/O code producing an async tokio simulation; no solver encoding of the real parser within reach (DESIGN 4/C19).',
    'C20': 'DnsClient::get_host_by_name / DnsServer are async over sockets (C02); the synchronous codec pieces are checked under C08/C14 only (DESIGN 4/C20).',
}

ALL = [f'C{i:02d}' for i in range(1, 21)]


def main():
    checks = []
    na = []
    engines = {}
    for pid in ALL:
        try:
            mod = importlib.import_module('props.' + pid.lower())
        except ModuleNotFoundError:
            mod = None
        m = getattr(mod, 'MANIFEST', None) if mod else None
        if m is None:
            na.append({'property_id': pid, 'reason': NOT_APPLICABLE.get(pid, 'check not built yet in this session (planned, see DESIGN.md section 4); not claimed until it runs')})
            continue
        c = {
            'property_id': pid,
            'quick_cmd': f'./check {pid} quick',
            'thorough_cmd': f'./check {pid} thorough',
            'evidence_file': f'/verif/evidence/{pid}.json',
            'replay_cmd_template': f'./check {pid} --replay {{path}}',
            'engine': m['engine'],
            'level_claimed': {'category': 'model_checking', 'text': m['level_text'], 'design_ref': m.get('design_ref', f'DESIGN.md section 4 / {pid}')},
            'level_note': m['level_note'],
            'technique': m['technique'],
        }
        checks.append(c)
        for e in m['engine'].split('+'):
            engines.setdefault(e.strip(), []).append(pid)
    man = {
        'version': 1,
        'setup_cmd': './setup.sh',
        'hooks': {
            'guard': 'none - no source hooks: harness modules are appended to a scratch copy of /repo/sim under cfg(kani) / cfg(test) (DESIGN 3.1)',
            'enable': 'automatic: every check copies /repo/sim/<crate> to /tmp/elvis-verif/<run>, appends `#[cfg(kani)] #[path=..] mod verif_kani;` to the modules under test and runs cargo kani / the nightly MIR dump there',
            'baseline_off_cmd': 'cd /repo/sim && cargo test --workspace --no-fail-fast --offline',
            'source_commits': [],
            'add_only': True,
        },
        'engines': [
            {'name': 'kani', 'path': '/verif/harness/kani', 'serves_properties': engines.get('kani', []),
             'kind_free_text': 'Kani 0.68 / CBMC 6.11 bounded model checking of the crate compiled by kani-compiler; harnesses in-crate via scratch overlay'},
            {'name': 'mirx', 'path': '/verif/mirx', 'serves_properties': engines.get('mirx', []),
             'kind_free_text': 'own path-based symbolic executor over rustc MIR text (-Zunpretty=mir) with z3; std containers modelled, crate functions interpreted'},
        ],
        'checks': checks,
        'not_applicable': na,
        'notes': 'Exit codes: 0 held within stated bounds (KNOWN-FINDING lines possible), 1 VIOLATION after native replay, 2 inconclusive (timeout/OOM/unsupported/vacuous/non-reproducing). Bounds and what lies outside them are in each evidence file (coverage.bounds / coverage.outside_claim).',
    }
    with open(os.path.join(os.path.dirname(__file__), '..', 'MANIFEST.json'), 'w') as f:
        json.dump(man, f, indent=1)
        f.write('\n')
    print('claimed', [c['property_id'] for c in checks])


if __name__ == '__main__':
    main()
