"""mirx-based parts: run the symbolic exploration in worker processes, replay counterexamples and validation traces natively."""
import hashlib, json, os, re, time
from vf import common
from vf.common import log
from vf.parts import Part, replay_dir


def native_batch(items, append_to='src/protocols/tcp/tcb.rs', prelude=None, timeout=1200):
    """items: [{'rust': body with @@NAME@@, 'predicted': [...]}]; returns list of (matched: bool|None, native lines)"""
    from mirx import native, tcbsim
    if not items:
        return []
    src = [prelude if prelude is not None else tcbsim.RUST_PRELUDE]
    names = []
    for i, it in enumerate(items):
        nm = f'mirx_replay_{i}'
        names.append(nm)
        src.append(it['rust'].replace('@@NAME@@', nm))
    out, rc = native.run_tests('\n'.join(src), append_to=append_to, timeout=timeout)
    per = native.split_replays(out)
    res = []
    for nm, it in zip(names, items):
        nat = per.get(nm)
        if nat is None:
            res.append((None, [], out[-1500:]))
            continue
        res.append((nat == it['predicted'], nat, ''))
    return res


def first_diff(pred, nat):
    for i, (a, b) in enumerate(zip(pred, nat)):
        if a != b:
            return f'line {i}: predicted `{a[:200]}` native `{b[:200]}`'
    if len(pred) != len(nat):
        return f'length {len(pred)} vs {len(nat)}'
    return ''


def tcb_forged_part(ctx, role_filter, name='tcb-forged-segment', situations=None, shift=False, closed=None):
    """role_filter(key) -> bool: which violation roles belong to the calling property"""
    from mirx import tcbspecs, tcbrun
    t0 = time.time()
    part = Part(name, 'mirx (MIR symbolic executor) + z3 %s' % _z3v(),
                functions=[], bounds='', outside='')
    budget = 1200 if ctx.quick else 3000
    if closed is not None:
        from mirx import tcbclosed
        units = [u for u in tcbclosed.closed_units(ctx.tier) if u['kind'] in closed]
        results = tcbrun.run_units(units, tier=ctx.tier, budget=budget, fn=tcbclosed.worker_run_closed)
    else:
        units = tcbspecs.all_units(situations, fin_split=not (shift and ctx.quick))
        if shift and ctx.quick:
            # quick tier of the relational check: one endpoint per phase (handshake, transfer with data in flight / buffered, close)
            keep = {('synsent', 'A'), ('synrcvd', 'B'), ('estab', 'B'), ('estab_inflight', 'A'), ('estab_unread', 'B'), ('estab_ooo', 'B'), ('finwait1', 'A'), ('lastack', 'B')}
            units = [u for u in units if (u['situation'], u['target']) in keep]
        results = tcbrun.run_units(units, tier=ctx.tier, budget=budget, fn=tcbspecs.worker_run_shift if shift else None)
    enc, mods = set(), set()
    viol_by_key = {}
    validation = []
    for r in results:
        part.paths += r.paths
        part.queries += r.stats.get('queries', 0)
        part.solver_time += r.stats.get('solver_time', 0.0)
        part.transitions += r.obligations
        enc |= set(r.encoded)
        mods |= set(r.models)
        for u in r.unsupported:
            part.inconclusive.append(u[:300])
        for v in r.violations:
            viol_by_key.setdefault(v['key'], v)
        validation += r.validation
        u = r.unit
        nviol = len([v for v in r.violations if role_filter(v['key'])])
        uname = (f'{u["kind"]}/{u["variant"]}/faults<={u["faults"]}' + (f'/mtu={u["mtu"]}' if 'mtu' in u else '') + ('' if u.get('flush', True) else '/close-with-queued-data')) if closed is not None else \
            f'{u["situation"]}/{u["target"]}/flags={"".join(sorted(f[0] for f in tcbspecs.flags_of(u["cls"]))) or "-"}'
        part.units.append({'name': uname,
                           'desc': ('two real TCBs on a faulty network: per emitted segment deliver/drop/duplicate/delay within the fault budget, timers, eager and late reads; ' if closed is not None else '') + ('relational: the same history with ISNs shifted by symbolic k1, k2 must be identical up to the shifts; ' if shift else '') +
                                   'situation reached through the public API with symbolic ISNs; one fully symbolic forged segment; then segments(), receive()',
                           'verdict': 'held' if (nviol == 0 and not r.unsupported) else ('violated' if nviol else 'inconclusive'),
                           'nontrivial': r.paths > 0,
                           'detail': f'{r.paths} feasible paths, {r.obligations} obligations, {r.stats.get("queries", 0)} solver queries, {r.wall:.1f}s',
                           'samples': r.samples[:1]})
    part.functions = sorted(re.sub(r'<impl at [^>]*>', '<impl>', e) for e in enc if not e.startswith('const:'))
    part.assumptions = ['std models used (mirx/models.py, msgmodel.py): ' + ', '.join(sorted(mods)),
                        'Message payload abstracted to provenance extents (faithfulness of the real Message is C07)',
                        'rand ISNs, lengths and forged fields are symbolic; MTU 1500; dev-profile semantics (overflow checks on)']
    # native replay: violations of this property + translator-validation traces
    mine = [v for k, v in sorted(viol_by_key.items()) if role_filter(k)]
    vsel = validation[:40] if ctx.quick else validation[:120]
    batch = mine + vsel
    nat = native_batch(batch) if batch else []
    for v, (matched, lines, err) in zip(mine, nat[:len(mine)]):
        if matched:
            h = hashlib.sha1(v['key'].encode()).hexdigest()[:12]
            rp = os.path.join(replay_dir(ctx.prop), f'mirx-{h}.json')
            with open(rp, 'w') as f:
                json.dump({'engine': 'mirx', 'property': ctx.prop, 'key': v['key'], 'desc': v['desc'], 'rust': v['rust'], 'predicted': v['predicted'],
                           'append_to': 'src/protocols/tcp/tcb.rs'}, f, indent=1)
            part.violations.append({'key': v['key'], 'desc': v['desc'] + ' - replayed natively: the real Tcb printed exactly the predicted trace', 'replay': rp})
        else:
            why = first_diff(v['predicted'], lines) if matched is False else ('native replay did not run: ' + err[-300:])
            part.inconclusive.append(f'counterexample for {v["key"]} did not reproduce natively ({why})')
    nval = 0
    for it, (matched, lines, err) in zip(vsel, nat[len(mine):]):
        if matched:
            nval += 1
        else:
            why = first_diff(it['predicted'], lines) if matched is False else ('native run failed: ' + err[-300:])
            part.inconclusive.append(f'translator validation: a symbolic trace disagrees with the native Tcb ({why})')
    part.validated = nval
    if closed is not None:
        part.bounds = (f'{len(units)} scenarios ({", ".join(sorted(set(u["kind"] + "/" + u["variant"] for u in units)))}); ISNs 32-bit symbolic, write sizes symbolic 1..=2*MSS (A) / 1..=MSS (B); '
                       f'fault budget {max(u["faults"] for u in units)} (any emitted segment incl. SYN/SYN-ACK/ACK/FIN: drop, duplicate, delay behind the round), retransmission and 2*MSL timers; <=14-16 rounds; MTU 1500 and 100')
        part.outside = 'more faults than the budget; more than two data segments per write at MTU 1500; application writes at other points than listed; arbitrary (non-round-based) interleavings'
        return part
    part.bounds = (f'{len(units)} units = {len(set((u["situation"], u["target"]) for u in units))} (situation, endpoint) pairs x {len(units) // len(set((u["situation"], u["target"]) for u in units))} flag classes; '
                   + ('both ISN shifts k1, k2 32-bit symbolic (wrap-around anywhere in handshake or transfer included); ' if shift else '') +
                   'ISNs 32-bit symbolic; forged seq, ack 32-bit, window 16-bit, PSH/URG, text length 0..=MSS symbolic; written data ' + ('2000 bytes (concrete); ' if shift else '1..=2*MSS symbolic; ')
                   + ('follow-up: segments(), receive()' if ctx.quick else 'follow-up: segments(), receive(), advance_time(symbolic <= 5 s), segments()'))
    part.outside = 'more than one forged segment per history; MTU other than 1500; states reachable only through longer histories than the situations listed'
    return part


def _z3v():
    try:
        import z3
        return z3.get_version_string()
    except Exception:
        return '?'


def message_part(ctx):
    """C07: real Message MIR vs plain byte vectors"""
    import multiprocessing as mp
    from mirx import msgspec
    part = Part('message-vs-byte-vectors', 'mirx (MIR symbolic executor) + z3 %s' % _z3v())
    us = msgspec.units(ctx.tier)
    budget = 1200 if ctx.quick else 3000
    msgspec.worker(({'first_ops': ['slice_full'], 'first_targets': [0], 'depth': 1}, 600))      # load / dump MIR once before forking
    with mp.get_context('fork').Pool(min(16, os.cpu_count() or 4)) as pool:
        results = pool.map(msgspec.worker, [(u, budget) for u in us], chunksize=1)
    enc, mods = set(), set()
    seen = {}
    for r in results:
        part.paths += r['paths']
        part.queries += r['stats'].get('queries', 0)
        part.solver_time += r['stats'].get('solver_time', 0.0)
        part.transitions += r['obligations']
        enc |= set(r['encoded'])
        mods |= set(r['models'])
        for u in r['unsupported']:
            part.inconclusive.append(u)
        for v in r['violations']:
            seen.setdefault(v['key'], (v, r['unit']))
        u = r['unit']
        part.units.append({'name': f'first op {u["first_ops"][0]} on M{u["first_targets"][0]}' + (f', second op {u["second_ops"][0]}' if 'second_ops' in u else '') + f', {u["depth"]} operations',
                           'desc': 'pool of 3 real messages (two chunks; window inside a shared buffer + empty chunk; clone cut at 1) vs plain byte lists; symbolic bytes and operands',
                           'verdict': 'held' if not r['violations'] and not r['unsupported'] else ('violated' if r['violations'] else 'inconclusive'),
                           'nontrivial': r['paths'] > 0,
                           'detail': f'{r["paths"]} feasible paths, {r["obligations"]} comparisons, {r["stats"].get("queries", 0)} solver queries, {r["wall"]:.1f}s',
                           'samples': r['samples'][:2]})
    part.functions = sorted(re.sub(r'<impl at [^>]*>', '<impl>', e) for e in enc if not e.startswith('const:'))
    part.assumptions = ['std models used (mirx/models.py): ' + ', '.join(sorted(mods)),
                        'the generic one-line wrappers Message::new/header/slice (impl Into<..> dispatch) are bypassed: new_inner/header_inner/slice_inner and the six SliceRange::from impls are executed',
                        'Arc<Vec<u8>> modelled as a shared immutable buffer (no MIR path writes through it)']
    part.bounds = ('pool of 3 messages with <= 3 chunks over buffers of <= 4 symbolic bytes; operation sequences of length 2 (quick) / 3 (thorough) over cut, remove_front, '
                   'six slice range forms, header(0..2 bytes), concatenate(other / clone of itself), clone; operands symbolic 0..=len+2 (so out-of-range arguments are included: '
                   'they must panic exactly when the byte-vector operation is undefined)')
    part.outside = 'Display/Debug formatting; longer messages / sequences than the bound; to_vec is covered through iter()'
    # replay: the counterexample is re-run natively as a unit test in message.rs
    items = []
    for k, (v, u) in sorted(seen.items()):
        items.append((k, v, u))
    for k, v, u in items:
        rp = os.path.join(replay_dir(ctx.prop), 'mirx-' + hashlib.sha1(k.encode()).hexdigest()[:12] + '.json')
        ok_native, detail = message_native_replay(v)
        if ok_native:
            with open(rp, 'w') as f:
                json.dump({'engine': 'mirx', 'property': ctx.prop, 'key': k, 'desc': v['desc'], 'values': v['values'], 'native': detail}, f, indent=1)
            part.violations.append({'key': k, 'desc': v['desc'] + ' - confirmed natively: ' + detail[:200], 'replay': rp})
        else:
            part.inconclusive.append(f'counterexample for {k} did not reproduce natively ({detail[:300]})')
    return part


MSG_REPLAY = r'''
use super::*;
fn pool(b: &[u8]) -> (Vec<Message>, Vec<Vec<u8>>) {
    // same pool as mirx/msgspec.py build_pool: b0..b2 body, b3..b4 header, b5..b8 buffer, b9 tail
    let mut m0 = Message::new(vec![b[0], b[1], b[2]]);
    m0.header(vec![b[3], b[4]]);
    let r0 = vec![b[3], b[4], b[0], b[1], b[2]];
    let mut m1 = Message::new(vec![b[5], b[6], b[7], b[8]]);
    m1.slice(1..3);
    m1.concatenate(Message::new(Vec::<u8>::new()));
    m1.concatenate(Message::new(vec![b[9]]));
    let r1 = vec![b[6], b[7], b[9]];
    let mut m2 = m0.clone();
    m2.cut(1);
    let r2 = r0[1..].to_vec();
    (vec![m0, m1, m2], vec![r0, r1, r2])
}
'''


def message_native_replay(v):
    """re-run the violating operation sequence natively on the real Message and on Vec<u8>; the violation is confirmed when they differ"""
    from mirx import native
    trace = v.get('desc', '')
    m = re.match(r'^(.*?): (len\(\)|iter\(\)|byte|M0 ==)', trace)
    seq = m.group(1) if m else ''
    vals = v.get('values', {})
    b = [int(vals.get(f'b{i}', i + 1)) & 0xff for i in range(16)]
    ops = [x.strip() for x in seq.split(';') if x.strip() and x.strip() != 'initial pool']
    body = ['#[test]\nfn mirx_replay_0() {', '    println!("\\nREPLAY-BEGIN mirx_replay_0");',
            f'    let b: [u8; 16] = {b};', '    let (mut ms, mut rs) = pool(&b);', '    let mut extra: Option<(Message, Vec<u8>)> = None;', '    let _ = &mut extra;']
    nb = 10
    for op in ops:
        mm = re.match(r'^M(\d)\.(.*)$', op)
        if not mm:
            return False, 'cannot render op ' + op
        t, what = int(mm.group(1)), mm.group(2)
        g = re.match(r'^cut\((\d+)\)$', what)
        if g:
            n = int(g.group(1))
            body.append(f'    {{ let h = ms[{t}].cut({n}); let hr: Vec<u8> = rs[{t}].drain(..{n}).collect(); extra = Some((h, hr)); }}')
            continue
        g = re.match(r'^remove_front\((\d+)\)$', what)
        if g:
            body.append(f'    ms[{t}].remove_front({g.group(1)}); rs[{t}].drain(..{g.group(1)});')
            continue
        g = re.match(r'^slice\((.*)\)$', what)
        if g:
            r = g.group(1)
            if r == '..':
                body.append(f'    ms[{t}].slice(..);')
            else:
                a_, b_ = None, None
                rr = re.match(r'^(\d*)\.\.(=?)(\d*)$', r)
                a_, inc, b_ = rr.group(1), rr.group(2), rr.group(3)
                if a_ and b_ and not inc and int(a_) > int(b_):
                    body.append(f'    ms[{t}].slice({r}); rs[{t}] = Vec::new();')
                else:
                    body.append(f'    ms[{t}].slice({r}); rs[{t}] = rs[{t}][{r}].to_vec();')
            continue
        g = re.match(r'^header\((\d) bytes\)$', what)
        if g:
            k = int(g.group(1))
            hb = ', '.join(f'b[{nb + i}]' for i in range(k))
            body.append(f'    {{ let h: Vec<u8> = vec![{hb}]; ms[{t}].header(h.clone()); let mut n = h; n.extend_from_slice(&rs[{t}]); rs[{t}] = n; }}')
            nb += k
            continue
        g = re.match(r'^concatenate\(clone of M(\d)\)$', what)
        if g:
            o = int(g.group(1))
            body.append(f'    {{ let c = ms[{o}].clone(); ms[{t}].concatenate(c); let c2 = rs[{o}].clone(); rs[{t}].extend(c2); }}')
            continue
        if what == 'concatenate(clone of itself)':
            body.append(f'    {{ let c = ms[{t}].clone(); ms[{t}].concatenate(c); let c2 = rs[{t}].clone(); rs[{t}].extend(c2); }}')
            continue
        g = re.match(r'^M(\d) = clone$', what)
        if g:
            o = int(g.group(1))
            body.append(f'    ms[{o}] = ms[{t}].clone(); rs[{o}] = rs[{t}].clone();')
            continue
        return False, 'cannot render op ' + op
    body.append('    let mut bad = Vec::new();')
    body.append('    for i in 0..3 { if ms[i].len() != rs[i].len() || ms[i].to_vec() != rs[i] { bad.push(format!("M{} = {:?} (len {}) but bytes {:?}", i, ms[i].to_vec(), ms[i].len(), rs[i])); } }')
    body.append('    if let Some((h, hr)) = &extra { if h.len() != hr.len() || &h.to_vec() != hr { bad.push(format!("cut-off part {:?} vs {:?}", h.to_vec(), hr)); } }')
    body.append('    if (ms[0] == ms[1]) != (rs[0] == rs[1]) { bad.push("eq differs".to_string()); }')
    body.append('    println!("OP 0 RESULT {}", if bad.is_empty() { "AGREE".to_string() } else { bad.join(" | ") });')
    body.append('}')
    out, rc = native.run_tests(MSG_REPLAY + '\n'.join(body), append_to='src/message.rs', test_filter='mirx_replay_0')
    lines = native.op_lines(out)
    if not lines:
        if 'panicked' in out:
            return ('panic' in v['key']), 'native run panicked: ' + out[out.find('panicked'):][:200]
        return False, 'native replay did not run: ' + out[-300:]
    return ('AGREE' not in lines[0]), lines[0]


# ------------------------------------------------------------------------------ C11 reassembly

REASM_REPLAY = r'''
use super::*;
use crate::protocols::ipv4::{ipv4_parsing::{ControlFlags, Ipv4Header, TypeOfService}, Ipv4Address};
fn payload(d: usize, total: usize) -> Vec<u8> { (0..total).map(|i| ((i * 7 + d * 31 + 3) % 251) as u8).collect() }
#[allow(clippy::too_many_arguments)]
fn hdr(total_length: u16, off: u16, mf: bool, id: u16, src: [u8; 4], dst: [u8; 4], proto: u8, ttl: u8) -> Ipv4Header {
    Ipv4Header { ihl: 5, type_of_service: TypeOfService::from(0u8), total_length, identification: id, fragment_offset: off,
        flags: ControlFlags::new(true, !mf), time_to_live: ttl, protocol: proto, checksum: 0, source: Ipv4Address::new(src), destination: Ipv4Address::new(dst) }
}
'''


def reasm_native_replay(v):
    from mirx import native
    u = v['unit']
    vals = v.get('values', {})
    g = lambda k, d=1: int(vals.get(k, d))
    L = ['#[test]\nfn mirx_replay_0() {', '    println!("\\nREPLAY-BEGIN mirx_replay_0");', '    let mut r = Reassembly::new();', '    let mut bad: Vec<String> = Vec::new();']
    dg = []
    for d, n in enumerate(u['pieces']):
        if n == 0:
            continue
        blocks = [max(1, min(2, g(f'blk{d}_{i}', 1))) for i in range(n - 1)]
        last = max(1, min(16, g(f'last{d}', 5)))
        total = sum(b * 8 for b in blocks) + last
        src = [g(f's{d}_{i}', 10 + d) & 0xff for i in range(4)]
        dst = [g(f'd{d}_{i}', 20 + d) & 0xff for i in range(4)]
        proto, ident, ttl = g(f'proto{d}', 17) & 0xff, g(f'id{d}', 100 + d) & 0xffff, g(f'ttl{d}', 30) & 0xff
        L.append(f'    let p{d} = payload({d}, {total});')
        off = 0
        pcs = []
        for i in range(n):
            ln = blocks[i] * 8 if i < n - 1 else last
            pcs.append((off, ln, i < n - 1))
            off += ln
        dg.append({'n': n, 'pieces': pcs, 'total': total, 'hdr': (ident, src, dst, proto, ttl)})
    L.append(f'    let mut got: Vec<std::collections::BTreeSet<usize>> = vec![Default::default(); {len(dg)}];')
    L.append('    let mut token: Vec<Option<(BufId, Epoch)>> = vec![None; %d];' % len(dg))
    cull = u.get('cull')
    for pos, (d, i) in enumerate(u['order']):
        off, ln, mf = (0, dg[d]['total'], False) if i == 'W' else dg[d]['pieces'][i]
        ident, src, dst, proto, ttl = dg[d]['hdr']
        if cull is not None and cull[0] == pos:
            if cull[1] == 'stale':
                L.append(f'    if let Some((b, e)) = token.iter().flatten().next().cloned() {{ if got.iter().any(|s| s.len() >= 2) {{ r.maybe_cull_segment(b, e.wrapping_sub(1)); }} }}')
            else:
                L.append(f'    if let Some(k) = token.iter().position(|t| t.is_some()) {{ let (b, e) = token[k].unwrap(); r.maybe_cull_segment(b, e); got[k].clear(); token[k] = None; }}')
        L.append(f'    {{ let h = hdr({20 + ln}, {off // 8}, {"true" if mf else "false"}, {ident}, {src}, {dst}, {proto}, {ttl});')
        if i == 'W':
            L.append(f'      let res = r.receive_packet(h, Message::new(p{d}[{off}..{off + ln}].to_vec()));')
            L.append('      let want = true;')
        else:
            L.append(f'      let res = r.receive_packet(h, Message::new(p{d}[{off}..{off + ln}].to_vec())); got[{d}].insert({i});')
            L.append(f'      let want = got[{d}].len() == {dg[d]["n"]};')
        L.append('      match res {')
        L.append(f'        ReceivePacketResult::Complete(rh, rb) => {{ if !want {{ bad.push("step {pos}: complete too early".into()); }}')
        L.append(f'            if rb.to_vec() != p{d} {{ bad.push(format!("step {pos}: body len {{}} differs from original len {{}}", rb.len(), p{d}.len())); }}')
        L.append(f'            if rh.fragment_offset != 0 || !rh.flags.is_last_fragment() || rh.total_length as usize != {dg[d]["total"]} + 20 || rh.identification != {ident} {{ bad.push("step {pos}: header not original".into()); }}')
        L.append(f'            got[{d}].clear(); token[{d}] = None; }}')
        L.append(f'        ReceivePacketResult::Incomplete(_, b, e) => {{ if want {{ bad.push("step {pos}: complete missed".into()); }} token[{d}] = Some((b, e)); }}')
        L.append('      } }')
    L.append('    println!("OP 0 RESULT {}", if bad.is_empty() { "AGREE".to_string() } else { bad.join(" | ") });')
    L.append('}')
    out, rc = native.run_tests(REASM_REPLAY + '\n'.join(L), append_to='src/protocols/ipv4/reassembly.rs', test_filter='mirx_replay_0')
    lines = native.op_lines(out)
    if not lines:
        if 'panicked' in out:
            return ('panic' in v['key']), 'native run panicked: ' + out[out.find('panicked'):][:200]
        return False, 'native replay did not run: ' + out[-400:]
    return ('AGREE' not in lines[0]), lines[0]


def reassembly_part(ctx):
    import multiprocessing as mp
    from mirx import reasmspec
    part = Part('reassembly-vs-coverage-reference', 'mirx (MIR symbolic executor) + z3 %s' % _z3v())
    us = reasmspec.units(ctx.tier)
    budget = 900 if ctx.quick else 2400
    reasmspec.worker((us[0], 600))
    with mp.get_context('fork').Pool(min(16, os.cpu_count() or 4)) as pool:
        results = pool.map(reasmspec.worker, [(u, budget) for u in us], chunksize=1)
    enc, mods = set(), set()
    seen = {}
    for r in results:
        part.paths += max(r['paths'], 1 if r['violations'] else 0)
        part.queries += r['stats'].get('queries', 0)
        part.solver_time += r['stats'].get('solver_time', 0.0)
        part.transitions += r['obligations']
        enc |= set(r['encoded'])
        mods |= set(r['models'])
        for u in r['unsupported']:
            part.inconclusive.append(u)
        for v in r['violations']:
            seen.setdefault(v['key'], v)
        u = r['unit']
        part.units.append({'name': f'pieces {u["pieces"]}, arrival order {u["order"]}' + (f', expiry callback {u["cull"]}' if u.get('cull') else ''),
                           'desc': 'datagrams with symbolic keys/TTL, pieces cut at symbolic block boundaries (1..2 blocks each, last piece 1..16 bytes), provenance payloads',
                           'verdict': 'held' if not r['violations'] and not r['unsupported'] else ('violated' if r['violations'] else 'inconclusive'),
                           'nontrivial': r['paths'] > 0,
                           'detail': f'{r["paths"]} feasible paths, {r["obligations"]} arrivals checked, {r["stats"].get("queries", 0)} solver queries, {r["wall"]:.1f}s',
                           'samples': r['samples'][:1]})
    part.functions = sorted(re.sub(r'<impl at [^>]*>', '<impl>', e) for e in enc if not e.startswith('const:'))
    part.assumptions = ['std models used (mirx/models.py): ' + ', '.join(sorted(mods)),
                        'FxHashMap modelled as a finite map by structural key equality; BinaryHeap = the std algorithm over the crate\'s Fragment::cmp MIR',
                        'payload abstracted to provenance extents (C07); two different datagrams with equal (src,dst,protocol,id) are excluded (indistinguishable by design)']
    part.bounds = ('1-2 datagrams x 2-3 pieces; every arrival order of one datagram, interleavings of two, one duplicate at every position (all positions in thorough), re-sent datagram '
                   'after completion, expiry callback with stale and current epoch; piece sizes symbolic (1..2 blocks, last piece 1..16 bytes); all header fields symbolic')
    part.outside = 'more than 3 pieces / 2 datagrams; partially overlapping fragments (not producible by fragmenting one datagram); epoch wrap-around (65536 arrivals); the timer task in Ipv4Session'
    for k, v in sorted(seen.items()):
        rp = os.path.join(replay_dir(ctx.prop), 'mirx-' + hashlib.sha1(k.encode()).hexdigest()[:12] + '.json')
        ok_native, detail = reasm_native_replay(v)
        if ok_native:
            with open(rp, 'w') as f:
                json.dump({'engine': 'mirx', 'property': ctx.prop, 'key': k, 'desc': v['desc'], 'values': v['values'], 'unit': v['unit'], 'native': detail}, f, indent=1)
            part.violations.append({'key': k, 'desc': v['desc'][:400] + ' - confirmed natively: ' + detail[:200], 'replay': rp})
        else:
            part.inconclusive.append(f'counterexample for {k} did not reproduce natively ({detail[:300]})')
    return part


# ------------------------------------------------------------------------------ generic runner for spec modules whose workers return dict results

def generic_part(ctx, name, units, worker, unit_name, unit_desc, replay_fn, bounds, outside, assumptions, budget=None, warm=True):
    import multiprocessing as mp
    part = Part(name, 'mirx (MIR symbolic executor) + z3 %s' % _z3v())
    budget = budget or (900 if ctx.quick else 2400)
    if warm and units:
        worker((units[0], 600))         # dump / parse the MIR once before forking
    with mp.get_context('fork').Pool(min(16, os.cpu_count() or 4)) as pool:
        results = pool.map(worker, [(u, budget) for u in units], chunksize=1)
    enc, mods = set(), set()
    seen = {}
    for r in results:
        part.paths += max(r['paths'], 1 if r['violations'] else 0)
        part.queries += r['stats'].get('queries', 0)
        part.solver_time += r['stats'].get('solver_time', 0.0)
        part.transitions += r['obligations']
        enc |= set(r['encoded'])
        mods |= set(r['models'])
        for u in r['unsupported']:
            part.inconclusive.append(u)
        for v in r['violations']:
            seen.setdefault(v['key'], v)
        part.units.append({'name': unit_name(r['unit']), 'desc': unit_desc,
                           'verdict': 'held' if not r['violations'] and not r['unsupported'] else ('violated' if r['violations'] else 'inconclusive'),
                           'nontrivial': r['paths'] > 0,
                           'detail': f'{r["paths"]} feasible paths, {r["obligations"]} obligations, {r["stats"].get("queries", 0)} solver queries, {r["wall"]:.1f}s',
                           'samples': r['samples'][:1]})
    part.functions = sorted(re.sub(r'<impl at [^>]*>', '<impl>', e) for e in enc if not e.startswith('const:'))
    part.assumptions = ['std models used (mirx/models.py): ' + ', '.join(sorted(mods))] + list(assumptions)
    part.bounds, part.outside = bounds, outside
    for k, v in sorted(seen.items()):
        rp = os.path.join(replay_dir(ctx.prop), 'mirx-' + hashlib.sha1(k.encode()).hexdigest()[:12] + '.json')
        ok_native, detail = replay_fn(v)
        if ok_native:
            with open(rp, 'w') as f:
                json.dump({'engine': 'mirx', 'property': ctx.prop, 'key': k, 'desc': v['desc'], 'values': v.get('values'), 'unit': v.get('unit'), 'native': detail}, f, indent=1)
            part.violations.append({'key': k, 'desc': v['desc'][:400] + ' - confirmed natively: ' + detail[:200], 'replay': rp})
        else:
            part.inconclusive.append(f'counterexample for {k} did not reproduce natively ({detail[:300]})')
    return part


IPTABLE_REPLAY = r'''
use super::*;
fn lpm(entries: &[(u32, u32, u32)], a: u32) -> Option<u32> {
    let mut best: Option<(u32, u32)> = None;
    for (id, len, v) in entries {
        let mask: u32 = if *len == 0 { 0 } else { (!0u32) << (32 - *len) };
        if a & mask == *id { if best.map_or(true, |(l, _)| *len > l) { best = Some((*len, *v)); } }
    }
    best.map(|(_, v)| v)
}
fn put(entries: &mut Vec<(u32, u32, u32)>, id: u32, len: u32, v: u32) { entries.retain(|e| !(e.0 == id && e.1 == len)); entries.push((id, len, v)); }
fn del(entries: &mut Vec<(u32, u32, u32)>, id: u32, len: u32) { entries.retain(|e| !(e.0 == id && e.1 == len)); }
fn cur(entries: &[(u32, u32, u32)], id: u32, len: u32) -> Option<u32> { entries.iter().find(|e| e.0 == id && e.1 == len).map(|e| e.2) }
'''


def iptable_native_replay(v):
    from mirx import native
    u = v['unit']
    vals = v.get('values', {})
    L = ['#[test]\nfn mirx_replay_0() {', '    println!("\\nREPLAY-BEGIN mirx_replay_0");', '    let mut t: IpTable<u32> = IpTable::new();', '    let mut e: Vec<(u32, u32, u32)> = Vec::new(); let mut bad: Vec<String> = Vec::new();']
    for i, kind in enumerate(u['ops']):
        addr = int(vals.get(f'addr{i}', 0x0a000000 + i)) & 0xffffffff
        ln = min(32, int(vals.get(f'len{i}', 24))) if kind in ('add', 'remove') else 32
        val = int(vals.get(f'val{i}', i + 1)) & 0xffffffff
        L.append(f'    {{ let len: u32 = {ln}; let mask: u32 = if len == 0 {{ 0 }} else {{ (!0u32) << (32 - len) }}; let id = {addr}u32 & mask;')
        L.append('      let prev = cur(&e, id, len);')
        if kind == 'add':
            L.append(f'      let r = t.add(Ipv4Net::new(Ipv4Address::from({addr}u32), Ipv4Mask::from_bitcount(len)), {val}); put(&mut e, id, len, {val});')
        elif kind == 'add_direct':
            L.append(f'      t.add_direct(Ipv4Address::from({addr}u32), {val}); let r = prev; put(&mut e, id, len, {val});')
        elif kind == 'remove':
            L.append(f'      let r = t.remove(Ipv4Net::new(Ipv4Address::from({addr}u32), Ipv4Mask::from_bitcount(len))); del(&mut e, id, len);')
        else:
            L.append(f'      let r = t.remove_direct(Ipv4Address::from({addr}u32)); del(&mut e, id, len);')
        L.append(f'      if r != prev {{ bad.push(format!("operation {i} ({kind}) returned {{:?}}, the value stored for that network was {{:?}}", r, prev)); }} }}')
    a = int(vals.get('lookup', 0)) & 0xffffffff
    L.append(f'    let got = t.get_recipient(Ipv4Address::from({a}u32)); let want = lpm(&e, {a});')
    L.append('    if got != want { bad.push(format!("get_recipient = {:?}, longest-prefix reference = {:?}", got, want)); }')
    L.append('    println!("OP 0 RESULT {}", if bad.is_empty() { "AGREE".to_string() } else { bad.join(" | ") });')
    L.append('}')
    out, rc = native.run_tests(IPTABLE_REPLAY + '\n'.join(L), append_to='src/ip_table.rs', test_filter='mirx_replay_0')
    lines = native.op_lines(out)
    if not lines:
        return False, 'native replay did not run: ' + out[-400:]
    return ('AGREE' not in lines[0]), lines[0]


def iptable_part(ctx):
    from mirx import ipspec
    return generic_part(
        ctx, 'iptable-vs-lpm-reference', ipspec.table_units(ctx.tier), ipspec.worker_table,
        unit_name=lambda u: ' ; '.join(u['ops']) + ' ; get_recipient',
        unit_desc='networks with symbolic address and symbolic mask length 0..=32, symbolic values; BTreeMap ordered by the real Obm::cmp MIR',
        replay_fn=iptable_native_replay,
        bounds='all sequences of 3 (quick) / 4 (thorough) operations over add, add_direct, remove, remove_direct starting with an add and containing >= 2 adds; addresses 32-bit symbolic, '
               'mask lengths symbolic 0..=32 (nested / disjoint / duplicate keys are decided by the solver); lookup address symbolic; returned previous values of add/remove checked too',
        outside='add_cidr / remove_cidr text forms (CIDR parsing is in the Kani part); tables built by more operations than the bound',
        assumptions=['BTreeMap modelled as an association list kept sorted by the crate\'s own <Obm as Ord>::cmp MIR; insert replaces the value on Equal (std semantics)',
                     'reference = declarative longest-prefix match over the keys alive after the operation sequence'])


IPGEN_REPLAY = r'''
use super::*;
fn avail(g: &IpGenerator, w: u32) -> bool { g.available_ranges.iter().any(|r| r.start.to_u32() <= w && w <= r.end.to_u32()) }
fn mask(len: u32) -> u32 { if len == 0 { 0 } else { (!0u32) << (32 - len) } }
fn netof(addr: u32, len: u32) -> Ipv4Net { Ipv4Net::new(Ipv4Address::from(addr), Ipv4Mask::from_bitcount(len)) }
fn inside(n: &Ipv4Net, w: u32) -> bool { n.id().to_u32() <= w && w <= n.broadcast().to_u32() }
'''


def ipgen_native_replay(v):
    from mirx import native
    u = v['unit']
    vals = v.get('values', {})
    g = lambda k, d=0: int(vals.get(k, d))
    w = g('w') & 0xffffffff
    L = ['#[test]\nfn mirx_replay_0() {', '    println!("\\nREPLAY-BEGIN mirx_replay_0");', '    let mut bad: Vec<String> = Vec::new();',
         f'    let pool = netof({g("pool_addr") & 0xffffffff}, {min(32, g("pool_len", 24))}); let w: u32 = {w};',
         '    let mut events: Vec<(Ipv4Net, bool)> = Vec::new();   // (net, true = made available again / false = taken or blocked)']
    if u['ctor'] == 'new_sub':
        L.append('    let mut gen = IpGenerator::new_sub(pool); let base_ref = |x: u32| inside(&pool, x);')
    else:
        L.append('    let mut gen = IpGenerator::new_sub_no_ends(pool); let base_ref = |x: u32| pool.id().to_u32() < x && x < pool.broadcast().to_u32();')
    L.append('    let refav = |events: &Vec<(Ipv4Net, bool)>, x: u32| { let mut a = base_ref(x); for (n, back) in events { if inside(n, x) { a = *back; } } a };')
    L.append('    for x in [w, pool.id().to_u32(), pool.broadcast().to_u32(), pool.id().to_u32().wrapping_add(1), pool.broadcast().to_u32().wrapping_sub(1)] { if avail(&gen, x) != refav(&events, x) { bad.push(format!("after constructor: address {} available={} expected={}", x, avail(&gen, x), refav(&events, x))); } }')
    L.append('    let mut held: Vec<Ipv4Net> = Vec::new();')
    for i, kind in enumerate(u['ops']):
        if kind in ('fetch_ip', 'fetch_net'):
            ml = 32 if kind == 'fetch_ip' else min(32, g(f'm{i}', 30))
            call = 'gen.fetch_ip().map(Ipv4Net::new_1)' if kind == 'fetch_ip' else f'gen.fetch_net(Ipv4Mask::from_bitcount({ml}))'
            L.append(f'    {{ let before = events.clone(); match {call} {{')
            L.append(f'        Some(n) => {{ for x in [n.id().to_u32(), n.broadcast().to_u32(), w] {{ if inside(&n, x) && !refav(&before, x) {{ bad.push(format!("step {i}: handed out unavailable address {{}}", x)); }} }}')
            L.append(f'                     if n.mask().to_u32() != mask({ml}) {{ bad.push("step {i}: wrong mask".into()); }} events.push((n, false)); held.push(n); }}')
            L.append(f'        None => {{ let b: u32 = {g(f"base{i}") & 0xffffffff}; let hm = !mask({ml}); if b & hm == 0 && gen.available_ranges.iter().any(|r| r.start.to_u32() <= b && (b | hm) <= r.end.to_u32()) {{ bad.push("step {i}: None although space left".into()); }} }}')
            L.append('    } }')
        elif kind == 'block':
            L.append(f'    {{ let n = netof({g(f"blk{i}_addr") & 0xffffffff}, {min(32, g(f"blk{i}_len", 28))}); gen.block_subnet(n); events.push((n, false)); }}')
        elif kind == 'return':
            L.append('    if !held.is_empty() { let n = held.remove(0); gen.return_subnet(n); events.push((n, true)); }')
        L.append(f'    if avail(&gen, w) != refav(&events, w) {{ bad.push(format!("after step {i}: address {{}} available={{}} expected={{}}", w, avail(&gen, w), refav(&events, w))); }}')
    L.append('    println!("OP 0 RESULT {}", if bad.is_empty() { "AGREE".to_string() } else { bad.join(" | ") });')
    L.append('}')
    out, rc = native.run_shim_tests(IPGEN_REPLAY + '\n'.join(L), module='ip_generator.rs', test_filter='mirx_replay_0')
    lines = native.op_lines(out)
    if not lines:
        if 'panicked' in out:
            return ('panic' in v['key']), 'native run panicked: ' + out[out.find('panicked'):][:200]
        return False, 'native replay did not run: ' + out[-400:]
    return ('AGREE' not in lines[0]), lines[0]


def ipgen_part(ctx):
    from mirx import ipspec
    return generic_part(
        ctx, 'ipgenerator-vs-set-reference', ipspec.gen_units(ctx.tier), ipspec.worker_gen,
        unit_name=lambda u: u['ctor'] + (' ; ' + ' ; '.join(u['ops']) if u['ops'] else ' (constructor only, any mask length)'),
        unit_desc='pool = symbolic subnet; operations with symbolic masks / networks; set equalities over all 2^32 addresses via a free witness address',
        replay_fn=ipgen_native_replay,
        bounds='constructors new_sub / new_sub_no_ends for every pool (address 32-bit, mask length 0..=32 symbolic); every sequence of 2 and (quick: those with <= 1 block and <= 1 fetch_net; thorough: all) 3 operations over fetch_ip, '
               'fetch_net(mask length 26..=32 symbolic), block_subnet(symbolic network /24../32), return_subnet(of something held) on pools /22../32; witness address symbolic',
        outside='return of networks that are not held (the property only speaks about returns of held addresses); pools larger than /22 for operation sequences; '
                'the DHCP message exchange (async transport) - only the generator, which every DHCP lease goes through under the server\'s write lock, is decided',
        assumptions=['BTreeSet modelled as a list kept sorted by the derived <IpRange as Ord>::cmp MIR', 'ip_generator.rs is compiled through a shim crate (#[path]-style copy next to a path dependency on elvis-core)'])


FRAG_REPLAY = r'''
use super::*;
use crate::protocols::ipv4::{ipv4_parsing::{ControlFlags, Ipv4Header, TypeOfService}, Ipv4Address};
'''


def frag_native_replay(v):
    from mirx import native
    vals = v.get('values', {})
    g = lambda k, d: int(vals.get(k, d))
    mtu, total, off_in = g('mtu', 100), max(20, g('total', 200)), g('off_in', 0)
    mf = 'true' if v['unit'].get('mf_in') else 'false'
    L = ['#[test]\nfn mirx_replay_0() {', '    println!("\\nREPLAY-BEGIN mirx_replay_0");',
         f'    let total: u16 = {total}; let mtu: u16 = {mtu}; let off_in: u16 = {off_in};',
         '    let payload: Vec<u8> = (0..(total as usize - 20)).map(|i| ((i * 7 + 3) % 251) as u8).collect();',
         f'    let h = Ipv4Header {{ ihl: 5, type_of_service: TypeOfService::from(0u8), total_length: total, identification: {g("id", 7) & 0xffff}, fragment_offset: off_in, flags: ControlFlags::new(true, !{mf}), time_to_live: 9, protocol: 17, checksum: 0, source: Ipv4Address::new([1, 2, 3, 4]), destination: Ipv4Address::new([5, 6, 7, 8]) }};',
         '    let mut bad: Vec<String> = Vec::new();',
         '    match fragment(h, Message::new(payload.clone()), mtu) {',
         '        Fragments::DontFragment((_, b)) => { if b.to_vec() != payload { bad.push("pass-through body changed".into()); } }',
         '        Fragments::Discard => bad.push("discarded although DF is clear".into()),',
         '        Fragments::Fragmented(ps) => { let mut pos = 0usize; for (i, (ph, pb)) in ps.iter().enumerate() {',
         '            let o = (ph.fragment_offset - off_in) as usize * 8; let bytes = pb.to_vec();',
         '            if o != pos || o + bytes.len() > payload.len() || bytes[..] != payload[o..o + bytes.len()] { bad.push(format!("piece {} (header offset {} bytes, {} bytes) is not payload[{}..]", i, o, bytes.len(), pos)); }',
         '            if ph.total_length as usize != 20 + bytes.len() { bad.push(format!("piece {} total_length", i)); }',
         '            pos += bytes.len(); }',
         '            if pos != payload.len() { bad.push("pieces do not cover the payload".into()); } }',
         '    }',
         '    println!("OP 0 RESULT {}", if bad.is_empty() { "AGREE".to_string() } else { bad.join(" | ") });', '}']
    out, rc = native.run_tests(FRAG_REPLAY + '\n'.join(L), append_to='src/protocols/ipv4/fragmentation.rs', test_filter='mirx_replay_0')
    lines = native.op_lines(out)
    if not lines:
        if 'panicked' in out:
            return ('panic' in v['key']), 'native run panicked: ' + out[out.find('panicked'):][:200]
        return False, 'native replay did not run: ' + out[-400:]
    return ('AGREE' not in lines[0]), lines[0]


def frag_content_part(ctx):
    from mirx import fragspec
    return generic_part(
        ctx, 'fragment-content-placement', fragspec.units(ctx.tier), fragspec.worker,
        unit_name=lambda u: f'MTU {u["mtu_lo"]}..={u["mtu_hi"]}, <= {u["pieces"]} pieces, incoming MF {"set" if u["mf_in"] else "clear"}',
        unit_desc='real fragment() MIR on a datagram-or-fragment with symbolic MTU, total length, incoming offset and header fields; payload = one provenance extent',
        replay_fn=frag_native_replay,
        bounds='MTU 68..=1500 (thorough ..=65535) symbolic, total length symbolic with payload <= K * 8*floor((MTU-20)/8), K = 3 (thorough 5), incoming offset 0..=4000 symbolic, incoming MF set and clear',
        outside='more pieces than K; DF set (decided by the Kani part); payload bytes themselves (a provenance extent stands for arbitrary bytes)',
        assumptions=['Message modelled as provenance extents (cut/slice/concatenate split and join extents; faithfulness of the real Message is C07)'])


UDP_REPLAY = r'''
use super::*;
use crate::{protocol::{DemuxError, StartError}, session::SendError, Control, Machine, Message, Session, Shutdown};
use crate::protocols::ipv4::{ipv4_parsing::{ControlFlags, Ipv4Header, TypeOfService}, Ipv4, Ipv4Address};
use crate::protocols::utility::Endpoint;
use std::{any::TypeId, sync::{Arc, Mutex}};
use tokio::sync::Barrier;
type Got = (usize, Vec<u8>);
static GOT: Mutex<Vec<Got>> = Mutex::new(Vec::new());
struct Rec<const N: usize>;
#[async_trait::async_trait]
impl<const N: usize> crate::Protocol for Rec<N> {
    async fn start(&self, _s: Shutdown, _i: Arc<Barrier>, _m: Arc<Machine>) -> Result<(), StartError> { Ok(()) }
    fn demux(&self, message: Message, _caller: Arc<dyn Session>, _control: Control, _machine: Arc<Machine>) -> Result<(), DemuxError> {
        GOT.lock().unwrap().push((N, message.to_vec())); Ok(())
    }
}
struct Dummy;
static SENT: Mutex<Vec<Vec<u8>>> = Mutex::new(Vec::new());
impl Session for Dummy { fn send(&self, m: Message, _ma: Arc<Machine>) -> Result<(), SendError> { SENT.lock().unwrap().push(m.to_vec()); Ok(()) } }
'''


def udp_native_replay(v):
    from mirx import native
    u = v['unit']
    vals = v.get('values', {})
    g = lambda k, d=0: int(vals.get(k, d))
    if u.get('kind') == 'open_and_listen':
        la, lp, ra, rp = g('laddr') & 0xffffffff, g('lport') & 0xffff, g('raddr') & 0xffffffff, g('rport') & 0xffff
        T = ['#[test]\nfn mirx_replay_0() {', '    println!("\\nREPLAY-BEGIN mirx_replay_0");',
             '    let machine = Arc::new(Machine::new().with(Udp::new()).with(Ipv4::new(Default::default())).with(Rec::<0>).with(Rec::<1>));',
             '    let udp = machine.protocol::<Udp>().unwrap(); let mut bad: Vec<String> = Vec::new(); let mut pre = 0usize; let mut same = false;',
             f'    let local = Endpoint::new(Ipv4Address::from({la}u32), {lp}); let remote = Endpoint::new(Ipv4Address::from({ra}u32), {rp});']
        if u['prebound']:
            pa, pp = g('baddr0') & 0xffffffff, g('bport0') & 0xffff
            T.append(f'    let p = Endpoint::new(Ipv4Address::from({pa}u32), {pp}); udp.listen(TypeId::of::<Rec<0>>(), p, machine.clone()).unwrap(); pre = 1; same = p == local;')
        T += ['    let rt = tokio::runtime::Builder::new_current_thread().enable_all().build().unwrap();',
              '    let r = rt.block_on(udp.open_and_listen(TypeId::of::<Rec<1>>(), crate::protocols::utility::Endpoints::new(local, remote), machine.clone()));',
              '    let n = udp.listen_bindings.len();',
              '    if same { if n != 1 || r.is_ok() { bad.push(format!("open_and_listen on a bound socket: {} bindings, ok={}", n, r.is_ok())); } }',
              '    else { if n != pre + 1 { bad.push(format!("{} bindings after open_and_listen, expected {}", n, pre + 1)); }',
              '           match udp.listen_bindings.get(&local) { Some(b) => { if *b != TypeId::of::<Rec<1>>() { bad.push("endpoints.local is bound to another application".into()); } } None => bad.push("endpoints.local is not bound after open_and_listen".into()) } }',
              '    println!("OP 0 RESULT {}", if bad.is_empty() { "AGREE".to_string() } else { bad.join(" | ") });', '}']
        out, rc = native.run_tests(UDP_REPLAY + '\n'.join(T), append_to='src/protocols/udp.rs', test_filter='mirx_replay_0')
        lines = native.op_lines(out)
        if not lines:
            return False, 'native replay did not run: ' + out[-600:]
        return ('AGREE' not in lines[0]), lines[0]
    nb, npay = u['bindings'], u['payload']
    L = ['#[test]\nfn mirx_replay_0() {', '    println!("\\nREPLAY-BEGIN mirx_replay_0");',
         '    let machine = Arc::new(Machine::new().with(Udp::new()).with(Ipv4::new(Default::default())).with(Rec::<0>).with(Rec::<1>).with(Rec::<2>));',
         '    let udp = machine.protocol::<Udp>().unwrap(); let mut bad: Vec<String> = Vec::new();',
         '    let ids = [TypeId::of::<Rec<0>>(), TypeId::of::<Rec<1>>(), TypeId::of::<Rec<2>>()];',
         '    let mut bound: Vec<(u32, u16, usize)> = Vec::new();']
    for i in range(nb):
        a, p = g(f'baddr{i}') & 0xffffffff, g(f'bport{i}') & 0xffff
        L.append(f'    {{ let dup = bound.iter().any(|b| b.0 == {a}u32 && b.1 == {p}u16); let r = udp.listen(ids[{i}], Endpoint::new(Ipv4Address::from({a}u32), {p}), machine.clone());')
        L.append(f'      if r.is_ok() == dup {{ bad.push(format!("listen #{i}: ok={{}} although duplicate={{}}", r.is_ok(), dup)); }} if r.is_ok() {{ bound.push(({a}u32, {p}u16, {i})); }} }}')
    src, dst, sport, dport = g('src') & 0xffffffff, g('dst') & 0xffffffff, g('sport') & 0xffff, g('dport') & 0xffff
    payload = [g(f'pl{i}', 65 + i) & 0xff for i in range(npay)]
    L.append(f'    let payload: Vec<u8> = vec!{payload};')
    L.append(f'    let mut bytes: Vec<u8> = vec![{sport >> 8}, {sport & 255}, {dport >> 8}, {dport & 255}, {(8 + npay) >> 8}, {(8 + npay) & 255}, 0, 0]; bytes.extend_from_slice(&payload);')
    L.append(f'    let iph = Ipv4Header {{ ihl: 5, type_of_service: TypeOfService::from(0u8), total_length: {28 + npay}, identification: 1, fragment_offset: 0, flags: ControlFlags::new(true, true), time_to_live: 9, protocol: 17, checksum: 0, source: Ipv4Address::from({src}u32), destination: Ipv4Address::from({dst}u32) }};')
    L.append('    let mut control = Control::new(); control.insert(iph);')
    L.append('    GOT.lock().unwrap().clear();')
    L.append('    let r = crate::Protocol::demux(&*udp, Message::new(bytes), Arc::new(Dummy), control, machine.clone());')
    L.append(f'    let exact = bound.iter().find(|b| b.0 == {dst}u32 && b.1 == {dport}u16).map(|b| b.2); let wild = bound.iter().find(|b| b.0 == 0 && b.1 == {dport}u16).map(|b| b.2);')
    L.append('    let want = exact.or(wild); let got = GOT.lock().unwrap().clone();')
    L.append('    match want { None => { if !got.is_empty() || r.is_ok() { bad.push(format!("nobody bound but delivered {:?} / result ok={}", got, r.is_ok())); } }')
    L.append('                 Some(w) => { if got.len() != 1 || got[0].0 != w || got[0].1 != payload { bad.push(format!("expected delivery of {:?} to app {}, got {:?}", payload, w, got)); } } }')
    L.append('    println!("OP 0 RESULT {}", if bad.is_empty() { "AGREE".to_string() } else { bad.join(" | ") });')
    L.append('}')
    out, rc = native.run_tests(UDP_REPLAY + '\n'.join(L), append_to='src/protocols/udp.rs', test_filter='mirx_replay_0')
    lines = native.op_lines(out)
    if not lines:
        if 'panicked' in out:
            return ('panic' in v['key']), 'native run panicked: ' + out[out.find('panicked'):][:200]
        return False, 'native replay did not run: ' + out[-600:]
    return ('AGREE' not in lines[0]), lines[0]


def udp_part(ctx):
    from mirx import udpspec
    return generic_part(
        ctx, 'udp-listen-demux', udpspec.units(ctx.tier), udpspec.worker,
        unit_name=lambda u: (f'open_and_listen (synchronous prefix of the async fn) with symbolic endpoints' + (', one symbolic binding made before' if u['prebound'] else '')) if u.get('kind') == 'open_and_listen' else f'{u["bindings"]} listen() calls with symbolic (address, port), then one datagram with {u["payload"]} payload bytes',
        unit_desc='real Udp::listen / Udp::demux / UdpSession::receive / Ipv4::listen / UdpHeader::from_bytes_ipv4 MIR and the real Message; machine, Control, DashMap and upstream applications modelled',
        replay_fn=udp_native_replay,
        bounds='0..=3 bindings with symbolic 32-bit address and 16-bit port (the solver decides which coincide and which are 0.0.0.0), datagram with symbolic source/destination address and port and '
               '0/2 (thorough 0/1/3) symbolic payload bytes',
        outside='multi-machine delivery, ARP on/off, arrival orders (async Network/Pci path); IPv4-layer binding lookup in Ipv4::demux (needs the Pci/Reassembly environment); limited-broadcast bindings beyond being ordinary addresses here',
        assumptions=['Machine::protocol / Machine::get return the modelled machine\'s protocols; upstream applications are recording stubs', 'Control modelled as a typed dictionary; DashMap as a finite map by structural key equality',
                     'tracing events are disabled in the model (Level <= LevelFilter is false)'])


ROUTER_REPLAY = r'''
use super::*;
use elvis_core::protocols::ipv4::ipv4_parsing::{ControlFlags, TypeOfService};
use elvis_core::protocols::arp::subnetting::{Ipv4Mask, Ipv4Net};
use elvis_core::session::SendError;
struct Dummy;
impl Session for Dummy { fn send(&self, _m: Message, _ma: Arc<Machine>) -> Result<(), SendError> { Ok(()) } }
fn mask(len: u32) -> u32 { if len == 0 { 0 } else { (!0u32) << (32 - len) } }
'''


ROUTER_SIM_REPLAY = r"""
use super::*;
use elvis_core::protocols::ipv4::ipv4_parsing::{ControlFlags, TypeOfService};
use elvis_core::protocols::ipv4::{ProtocolNumber, Recipient};
use elvis_core::protocols::arp::subnetting::{Ipv4Mask, Ipv4Net};
use elvis_core::protocol::StartError;
use elvis_core::session::SendError;
use elvis_core::{run_internet_with_timeout, Network, Shutdown};
use std::sync::Mutex;
use tokio::sync::Barrier;
static SEEN: Mutex<Vec<(usize, Vec<u8>)>> = Mutex::new(Vec::new());
struct Dummy;
impl Session for Dummy { fn send(&self, _m: Message, _ma: Arc<Machine>) -> Result<(), SendError> { Ok(()) } }
/// host without ARP on one of the router's networks: whatever IPv4 datagram for `addr` reaches its interface is recorded
struct Obs { k: usize, addr: Ipv4Address }
#[async_trait::async_trait]
impl Protocol for Obs {
    async fn start(&self, _s: Shutdown, init: Arc<Barrier>, machine: Arc<Machine>) -> Result<(), StartError> {
        machine.protocol::<Ipv4>().unwrap().listen(TypeId::of::<Obs>(), self.addr, machine.clone(), ProtocolNumber::UDP).unwrap();
        init.wait().await; Ok(())
    }
    fn demux(&self, message: Message, _c: Arc<dyn Session>, _ctl: Control, _m: Arc<Machine>) -> Result<(), DemuxError> { SEEN.lock().unwrap().push((self.k, message.to_vec())); Ok(()) }
}
/// hands one datagram to the router's demux once the simulation is up
struct Inject { hdr: Ipv4Header, payload: Vec<u8> }
#[async_trait::async_trait]
impl Protocol for Inject {
    async fn start(&self, _s: Shutdown, init: Arc<Barrier>, machine: Arc<Machine>) -> Result<(), StartError> {
        init.wait().await;
        let mut control = Control::new(); control.insert(self.hdr);
        let _ = machine.protocol::<ArpRouter>().unwrap().demux(Message::new(self.payload.clone()), Arc::new(Dummy), control, machine.clone());
        Ok(())
    }
    fn demux(&self, _m: Message, _c: Arc<dyn Session>, _ctl: Control, _ma: Arc<Machine>) -> Result<(), DemuxError> { Ok(()) }
}
"""


def router_task_sim_replay(v):
    """simulation-level replay for the forwarding task: the real router on two real networks, one ARP-less observer host per network that
    records every datagram for the destination reaching its interface; nobody answers ARP, so a correct router puts nothing on the wire"""
    from mirx import native
    u = v['unit']
    vals = v.get('values', {})
    g = lambda k, d=0: int(vals.get(k, d))
    L = ['#[tokio::test(flavor = "multi_thread")]\nasync fn mirx_replay_0() {', '    println!("\\nREPLAY-BEGIN mirx_replay_0");',
         '    let mut table: IpTable<(Option<Ipv4Address>, PciSlot)> = IpTable::new();']
    for i in range(u['routes']):
        addr, ln, gw = g(f'raddr{i}') & 0xffffffff, min(32, g(f'rlen{i}', 24)), g(f'gw{i}') & 0xffffffff
        gws = f'Some(Ipv4Address::from({gw}u32))' if u['gateways'][i] else 'None'
        L.append(f'    table.add(Ipv4Net::new(Ipv4Address::from({addr}u32), Ipv4Mask::from_bitcount({ln})), ({gws}, {u["slots"][i]}));')
    dst, src, ttl = g('dst') & 0xffffffff, g('src') & 0xffffffff, max(2, g('ttl') & 0xff)
    npay = u['payload']
    lips = [g('lip0') & 0xffffffff, g('lip1') & 0xffffffff]
    L += [f'    let dst = Ipv4Address::from({dst}u32); let lips = vec![Ipv4Address::from({lips[0]}u32), Ipv4Address::from({lips[1]}u32)];',
          f'    let h = Ipv4Header {{ ihl: 5, type_of_service: TypeOfService::from(0u8), total_length: {20 + npay}, identification: {g("ident") & 0xffff}, fragment_offset: 0, flags: ControlFlags::new(true, true), time_to_live: {ttl}, protocol: 17, checksum: 0, source: Ipv4Address::from({src}u32), destination: dst }};',
          f'    let payload: Vec<u8> = vec!{[g(f"pl{i}", 1) & 0xff for i in range(npay)]};',
          '    let nets = [Network::basic(), Network::basic()];',
          '    let mut own = IpTable::<Recipient>::new(); for ip in &lips { own.add_direct(*ip, Recipient::new(0, None)); }',
          '    SEEN.lock().unwrap().clear();',
          '    let machines = vec![',
          '        elvis_core::new_machine_arc![Pci::new([nets[0].clone(), nets[1].clone()]), Ipv4::new(own), Arp::new(), ArpRouter::new(table, lips.clone()), Inject { hdr: h, payload: payload.clone() }],',
          '        elvis_core::new_machine_arc![Pci::new([nets[0].clone()]), Ipv4::new(Default::default()), Obs { k: 0, addr: dst }],',
          '        elvis_core::new_machine_arc![Pci::new([nets[1].clone()]), Ipv4::new(Default::default()), Obs { k: 1, addr: dst }],',
          '    ];',
          '    // ARP gives up after RESEND_TRIES * RESEND_DELAY = 2 s; anything (wrongly) sent after that still has a second to arrive',
          '    let _ = run_internet_with_timeout(&machines, std::time::Duration::from_millis(3500)).await;',
          '    let seen = SEEN.lock().unwrap().clone();',
          '    println!("OP 0 RESULT {}", if seen.is_empty() { "AGREE".to_string() } else { format!("nobody answers ARP for the next hop, yet the datagram was put on the wire: hosts on interface(s) {:?} received it", seen.iter().map(|s| s.0).collect::<Vec<_>>()) });',
          '}']
    out, rc = native.run_shim_tests(ROUTER_SIM_REPLAY + '\n'.join(L), module='applications/arp_router.rs', test_filter='mirx_replay_0')
    lines = native.op_lines(out)
    if not lines:
        return False, 'native simulation replay did not run: ' + out[-900:]
    return ('AGREE' not in lines[0]), lines[0]


def router_native_replay(v):
    """native run of ArpRouter::demux on a real Machine inside a tokio runtime.  Observable: panic / return value of demux, the route chosen
    by the real IpTable, the real re-serialised header, and - through Arp's resolve_hook - whether a forward was started and with which
    (local address, next hop, interface).  The packet bytes handed to the Pci session after ARP resolution are not observable."""
    from mirx import native
    if ':task:sent-although-next-hop-unresolved' in v.get('key', ''):
        return router_task_sim_replay(v)
    if ':task:' in v.get('key', ''):
        return False, ('this obligation is about what the spawned forwarding task does after `arp.resolve(..).await`; the function-level native replay cannot observe '
                       'the frames handed to the Pci session, so the symbolic counterexample stays unconfirmed')
    u = v['unit']
    vals = v.get('values', {})
    g = lambda k, d=0: int(vals.get(k, d))
    n = u['routes']
    L = ['#[tokio::test(flavor = "multi_thread")]\nasync fn mirx_replay_0() {', '    println!("\\nREPLAY-BEGIN mirx_replay_0");', '    let mut bad: Vec<String> = Vec::new();',
         '    let mut table: IpTable<(Option<Ipv4Address>, PciSlot)> = IpTable::new(); let mut routes: Vec<(u32, u32, Option<u32>, u32)> = Vec::new();']
    for i in range(n):
        addr, ln, gw = g(f'raddr{i}') & 0xffffffff, min(32, g(f'rlen{i}', 24)), g(f'gw{i}') & 0xffffffff
        gws = f'Some(Ipv4Address::from({gw}u32))' if u['gateways'][i] else 'None'
        gwr = f'Some({gw}u32)' if u['gateways'][i] else 'None'
        L.append(f'    table.add(Ipv4Net::new(Ipv4Address::from({addr}u32), Ipv4Mask::from_bitcount({ln})), ({gws}, {u["slots"][i]})); routes.retain(|r| !(r.0 == {addr}u32 & mask({ln}) && r.1 == {ln})); routes.push(({addr}u32 & mask({ln}), {ln}, {gwr}, {u["slots"][i]}));')
    dst, src, ttl = g('dst') & 0xffffffff, g('src') & 0xffffffff, g('ttl') & 0xff
    npay = u['payload']
    lips = [g('lip0') & 0xffffffff, g('lip1') & 0xffffffff]
    L.append(f'    let dst: u32 = {dst}; let ttl: u8 = {ttl}; let lips: [u32; 2] = [{lips[0]}, {lips[1]}];')
    L.append('    let want = routes.iter().filter(|r| dst & mask(r.1) == r.0).max_by_key(|r| r.1).map(|r| (r.2, r.3));')
    L.append('    let got = table.get_recipient(Ipv4Address::from(dst)).map(|p| (p.0.map(|a| a.to_u32()), p.1));')
    L.append('    if got != want { bad.push(format!("route chosen by IpTable {:?}, longest-prefix reference {:?}", got, want)); }')
    L.append(f'    let h = Ipv4Header {{ ihl: 5, type_of_service: TypeOfService::from({g("tos") & 0xfc}u8), total_length: {20 + npay}, identification: {g("ident") & 0xffff}, fragment_offset: {g("frag") & 0x1fff}, flags: ControlFlags::from({g("flags") & 3}u8), time_to_live: ttl, protocol: {g("proto") & 0xff}, checksum: 0, source: Ipv4Address::from({src}u32), destination: Ipv4Address::from(dst) }};')
    L.append('    if ttl >= 2 { let mut h2 = h; h2.time_to_live = ttl - 1; let b = h2.serialize().unwrap(); if b[8] != ttl - 1 || b[0] != 0x45 || b[12..16] != h.source.to_bytes() || b[16..20] != h.destination.to_bytes() { bad.push("re-serialised header differs".into()); } }')
    L.append('    let router = ArpRouter::new(table, vec![Ipv4Address::from(lips[0]), Ipv4Address::from(lips[1])]);')
    L.append('    let calls: Arc<std::sync::Mutex<Vec<(u32, u32, u32)>>> = Arc::new(std::sync::Mutex::new(Vec::new())); let c2 = calls.clone();')
    L.append('    let arp = Arp::new().resolve_hook(move |pair, slot| { c2.lock().unwrap().push((pair.local.to_u32(), pair.remote.to_u32(), slot)); });')
    L.append('    let machine = Arc::new(Machine::new().with(arp).with(Pci::new([])));')
    L.append('    let mut control = Control::new(); control.insert(h);')
    L.append(f'    let payload: Vec<u8> = vec!{[g(f"pl{i}", 1) & 0xff for i in range(npay)]};')
    L.append('    let r = std::panic::catch_unwind(std::panic::AssertUnwindSafe(|| router.demux(Message::new(payload.clone()), Arc::new(Dummy), control, machine.clone())));')
    L.append('    for _ in 0..20 { tokio::time::sleep(std::time::Duration::from_millis(10)).await; }')
    L.append('    let seen = calls.lock().unwrap().clone();')
    L.append('    match r { Err(_) => bad.push("demux panicked".into()), Ok(res) => { let should_err = ttl >= 2 && want.is_none(); if res.is_err() != should_err { bad.push(format!("demux returned {:?} (ttl {}, route {:?})", res, ttl, want)); } } }')
    L.append('    let expect: Vec<(u32, u32, u32)> = match want { Some((gw, slot)) if ttl >= 2 => vec![(lips[slot as usize], gw.unwrap_or(dst), slot)], _ => vec![] };')
    L.append('    if seen != expect { bad.push(format!("forwards started (local, next hop, interface) = {:?}, expected {:?}", seen, expect)); }')
    L.append('    println!("OP 0 RESULT {}", if bad.is_empty() { "AGREE".to_string() } else { bad.join(" | ") });')
    L.append('}')
    out, rc = native.run_shim_tests(ROUTER_REPLAY + '\n'.join(L), module='applications/arp_router.rs', test_filter='mirx_replay_0')
    lines = native.op_lines(out)
    if not lines:
        return False, 'native replay did not run: ' + out[-600:]
    if 'AGREE' in lines[0]:
        return False, ('the natively observable part (panic / return value of demux, route chosen by the real IpTable, re-serialised header, next hop and interface of the '
                       'started forward) agrees with the reference; the packet bytes handed on after ARP resolution are not observable by this replay')
    return True, lines[0]


def router_part(ctx):
    from mirx import routerspec
    return generic_part(
        ctx, 'arprouter-one-hop', routerspec.units(ctx.tier), routerspec.worker,
        unit_name=lambda u: f'{u["routes"]} routes (gateways {u["gateways"]}, interfaces {u["slots"]}), payload {u["payload"]} bytes',
        unit_desc='real ArpRouter::demux MIR (shim crate) with the real IpTable, Ipv4Header::serialize and Message; symbolic routes, gateways, local addresses and a fully symbolic IPv4 header; tokio::spawn records the captured next hop / slot / packet; the forwarding task (coroutine body) is then run with the ARP outcome chosen by the model (resolved / failed) and Pci recording',
        replay_fn=router_native_replay,
        bounds='0..=2 (thorough 3) routes with symbolic network (mask length 0..=32) and symbolic gateway or direct route, two interfaces with symbolic local addresses; header: TOS, id, DF/MF, offset, TTL, protocol, addresses symbolic; payload 0..=3 symbolic bytes',
        outside='multi-router topologies, loops, ARP resolution and delivery to the destination host (async Arp::resolve / Network::send); "at most initial-TTL hops" follows from the one-hop decrement by the decreasing measure TTL (stated, not checked)',
        assumptions=['Machine::protocol::<Arp>() returns an opaque Arp; tokio::spawn is modelled as recording the future\'s captured variables; the recorded coroutine body is run separately with `Arp::resolve(..).await` modelled as returning Ok(symbolic MAC) or Err, `Pci::open` / `PciSession::send_pci` recording (slot, destination MAC, packet)',
                     'native replay runs demux on a real Machine in a tokio runtime and observes panic / return value, the real IpTable lookup, the real header re-serialisation and, through '
                     'Arp::resolve_hook, the (local address, next hop, interface) of the started forward; a violation confined to what the forwarding task does after ARP resolution (roles `task:*`) cannot be '
                     'confirmed natively and is then reported INCONCLUSIVE (exit 2)'])


def demux_drop_native_replay(v):
    from mirx import native
    u = v['unit']
    vals = v.get('values', {})
    g = lambda k, d=0: int(vals.get(k, d))
    n, layer = u['nbytes'], u['layer']
    raw = [g(f'raw{i}') & 0xff for i in range(n)]
    L = ['#[test]\nfn mirx_replay_0() {', '    println!("\\nREPLAY-BEGIN mirx_replay_0");',
         '    let machine = Arc::new(Machine::new().with(Udp::new()).with(Ipv4::new(Default::default())).with(Rec::<0>));',
         f'    let raw: Vec<u8> = vec!{raw}; let mut bad: Vec<String> = Vec::new(); GOT.lock().unwrap().clear();']
    if layer == 'udp':
        L.append(f'    let udp = machine.protocol::<Udp>().unwrap(); udp.listen(TypeId::of::<Rec<0>>(), Endpoint::new(Ipv4Address::from(0u32), {g("bport") & 0xffff}), machine.clone()).unwrap();')
        L.append(f'    let iph = Ipv4Header {{ ihl: 5, type_of_service: TypeOfService::from(0u8), total_length: {max(20, g("iptl", 20 + n) & 0xffff)}, identification: 1, fragment_offset: 0, flags: ControlFlags::new(true, true), time_to_live: 9, protocol: 17, checksum: 0, source: Ipv4Address::from({g("src") & 0xffffffff}u32), destination: Ipv4Address::from({g("dst") & 0xffffffff}u32) }};')
        L.append('    let mut control = Control::new(); control.insert(iph);')
        L.append('    let r = std::panic::catch_unwind(std::panic::AssertUnwindSafe(|| crate::Protocol::demux(&*udp, Message::new(raw.clone()), Arc::new(Dummy), control, machine.clone())));')
        L.append('    let wellformed = raw.len() >= 8 && (((raw[4] as usize) << 8) | raw[5] as usize) == raw.len() && raw[6] == 0 && raw[7] == 0;')
    elif layer == 'tcp':
        src, dst = g('src') & 0xffffffff, g('dst') & 0xffffffff
        L.append('    let tcp = crate::protocols::tcp::Tcp::new(); SENT.lock().unwrap().clear();')
        L.append(f'    let iph = Ipv4Header {{ ihl: 5, type_of_service: TypeOfService::from(0u8), total_length: {20 + n}, identification: 1, fragment_offset: 0, flags: ControlFlags::new(true, true), time_to_live: 9, protocol: 6, checksum: 0, source: Ipv4Address::from({src}u32), destination: Ipv4Address::from({dst}u32) }};')
        L.append('    let mut control = Control::new(); control.insert(iph);')
        L.append('    let r = std::panic::catch_unwind(std::panic::AssertUnwindSafe(|| crate::Protocol::demux(&tcp, Message::new(raw.clone()), Arc::new(Dummy), control, machine.clone())));')
        L.append('    let wellformed = raw.len() >= 20 && (raw[12] >> 4) == 5;')
        L.append('    if !SENT.lock().unwrap().is_empty() && !wellformed { bad.push("a segment that does not decode was answered".into()); }')
    elif layer == 'arp':
        T = ['#[test]\nfn mirx_replay_0() {', '    println!("\\nREPLAY-BEGIN mirx_replay_0");',
             '    struct Dummy; impl crate::Session for Dummy { fn send(&self, _m: crate::Message, _ma: std::sync::Arc<crate::Machine>) -> Result<(), crate::session::SendError> { Ok(()) } }',
             f'    let raw: Vec<u8> = vec!{raw}; let arp = super::Arp::new(); let machine = std::sync::Arc::new(crate::Machine::new());',
             '    let r = std::panic::catch_unwind(std::panic::AssertUnwindSafe(|| crate::Protocol::demux(&arp, crate::Message::new(raw.clone()), std::sync::Arc::new(Dummy), crate::Control::new(), machine.clone())));',
             '    let wellformed = raw.len() >= 28 && raw[6] == 0 && (raw[7] == 1 || raw[7] == 2);',
             '    let changed = arp.arp_table.table.len() > 0;',
             '    let res = if r.is_err() { "demux panicked".to_string() } else if changed && !wellformed { "a frame that does not decode changed the ARP table".to_string() } else { "AGREE".to_string() };',
             '    println!("OP 0 RESULT {}", res);', '}']
        out, rc = native.run_tests('\n'.join(T), append_to='src/protocols/arp.rs', test_filter='mirx_replay_0')
        lines = native.op_lines(out)
        if not lines:
            return False, 'native replay did not run: ' + out[-600:]
        return ('AGREE' not in lines[0]), lines[0]
    elif layer == 'dhcp-client':
        L.append('    let app = crate::protocols::dhcp::dhcp_client::DhcpClient::new(Ipv4Address::from(0x0a000001u32)); let control = Control::new();')
        L.append('    let r = std::panic::catch_unwind(std::panic::AssertUnwindSafe(|| crate::Protocol::demux(&app, Message::new(raw.clone()), Arc::new(Dummy), control, machine.clone())));')
        L.append('    let wellformed = false;')
    elif layer == 'dhcp-server':
        return dhcp_server_native_replay(raw)
    else:
        L.append('    let ip = machine.protocol::<Ipv4>().unwrap(); let control = Control::new();')
        L.append('    let r = std::panic::catch_unwind(std::panic::AssertUnwindSafe(|| crate::Protocol::demux(&*ip, Message::new(raw.clone()), Arc::new(Dummy), control, machine.clone())));')
        L.append('    let wellformed = false;')
    L.append('    let got = GOT.lock().unwrap().clone();')
    L.append('    match r { Err(_) => bad.push("demux panicked".into()), Ok(res) => { if !got.is_empty() && !wellformed { bad.push(format!("malformed frame delivered: {:?}", got)); } if got.is_empty() && res.is_ok() { bad.push("dropped without an error".into()); } } }')
    L.append('    println!("OP 0 RESULT {}", if bad.is_empty() { "AGREE".to_string() } else { bad.join(" | ") });')
    L.append('}')
    out, rc = native.run_tests(UDP_REPLAY + '\n'.join(L), append_to='src/protocols/udp.rs', test_filter='mirx_replay_0')
    lines = native.op_lines(out)
    if not lines:
        return False, 'native replay did not run: ' + out[-600:]
    return ('AGREE' not in lines[0]), lines[0]


DHCP_SERVER_REPLAY = r"""
use super::*;
use elvis_core::{Control, Machine, Message, Protocol, Session, protocol::DemuxError, session::SendError, protocols::ipv4::Ipv4Address};
use crate::ip_generator::IpRange;
use std::sync::Arc;
struct Dummy;
impl Session for Dummy {
    fn send(&self, _m: Message, _machine: Arc<Machine>) -> Result<(), SendError> { Ok(()) }
}
"""


def dhcp_server_native_replay(raw):
    from mirx import native
    L = ['#[test]\nfn mirx_replay_0() {', '    println!("\\nREPLAY-BEGIN mirx_replay_0");',
         '    let machine = Arc::new(Machine::new());',
         f'    let raw: Vec<u8> = vec!{raw};',
         '    let app = DhcpServer::new(Ipv4Address::from(0x0a000001u32), IpRange::new(Ipv4Address::from(0x0a000002u32), Ipv4Address::from(0x0a0000feu32)));',
         '    let r = std::panic::catch_unwind(std::panic::AssertUnwindSafe(|| Protocol::demux(&app, Message::new(raw.clone()), Arc::new(Dummy), Control::new(), machine.clone())));',
         '    let res = match r { Err(_) => "demux panicked".to_string(), Ok(Ok(())) => "frame that cannot decode accepted".to_string(), Ok(Err(_)) => "AGREE".to_string() };',
         '    println!("OP 0 RESULT {}", res);', '}']
    out, rc = native.run_shim_tests(DHCP_SERVER_REPLAY + '\n'.join(L), module='applications/dhcp_server.rs', test_filter='mirx_replay_0',
                                    extra_modules=['ip_generator.rs'])
    lines = native.op_lines(out)
    if not lines:
        return False, 'native replay did not run: ' + out[-600:]
    return ('AGREE' not in lines[0]), lines[0]


def demux_drop_part(ctx):
    from mirx import udpspec
    return generic_part(
        ctx, 'drop-at-layer', udpspec.malformed_units(ctx.tier), udpspec.worker,
        unit_name=lambda u: f'{u["layer"]} demux on {u["nbytes"]} arbitrary bytes',
        unit_desc='real Udp::demux / Ipv4::demux / Tcp::demux (no session, no listener) / Arp::demux (no local address) / DhcpClient::demux / DhcpServer::demux MIR with the real header decoders and the real Message on arbitrary symbolic bytes; machine, Control, DashMap and applications modelled',
        replay_fn=demux_drop_native_replay,
        bounds='UDP layer: 0/7/8/10 (thorough 0,1,4,7,8,9,12) arbitrary bytes with one wildcard binding on a symbolic port; IPv4 layer: 0/19/20/22 (thorough up to 24) arbitrary bytes, no binding; TCP layer: 0/19/20/23 (thorough up to 24) arbitrary bytes, no session and no listener (the segment is refused, a reset is sent only for a decodable header); ARP: 0/27/28 (thorough up to 30) arbitrary bytes, the ARP table may change only for a packet that decodes; DHCP client and server: 0/31 (thorough 0,1,16,30,31) arbitrary bytes - every such payload is shorter than the shortest DHCP message of this codec (32 bytes)',
        outside='DHCP payloads of 32 bytes or more (they can decode; the handlers then need RwLock, String and the session send path); Tcp::demux with a listener or an existing session (it spawns session tasks), Arp::demux answering a request for a local address (it replies through Pci) (Tcp::demux spawns sessions, Arp::demux replies through Pci: async environment); "the simulation keeps running" (runtime)',
        assumptions=['environment as in the C04 part (Machine lookup, Control, DashMap, recording applications modelled)'])
