"""mirx-based parts: run the symbolic exploration in worker processes, replay counterexamples and validation traces natively."""
import hashlib, json, os, re, time
from vf import common
from vf.common import log
from vf.parts import Part, replay_dir


def native_batch(items, append_to='src/protocols/tcp/tcb.rs', prelude=None, timeout=1200):
    """items: [{'rust': body with @@NAME@@, 'predicted': [...]}]; returns list of (matched: bool|None, native lines)"""
    from mirx import native, tcbsim
    if not items:
        return []
    src = [prelude if prelude is not None else tcbsim.RUST_PRELUDE]
    names = []
    for i, it in enumerate(items):
        nm = f'mirx_replay_{i}'
        names.append(nm)
        src.append(it['rust'].replace('@@NAME@@', nm))
    out, rc = native.run_tests('\n'.join(src), append_to=append_to, timeout=timeout)
    per = native.split_replays(out)
    res = []
    for nm, it in zip(names, items):
        nat = per.get(nm)
        if nat is None:
            res.append((None, [], out[-1500:]))
            continue
        res.append((nat == it['predicted'], nat, ''))
    return res


def first_diff(pred, nat):
    for i, (a, b) in enumerate(zip(pred, nat)):
        if a != b:
            return f'line {i}: predicted `{a[:200]}` native `{b[:200]}`'
    if len(pred) != len(nat):
        return f'length {len(pred)} vs {len(nat)}'
    return ''


def tcb_forged_part(ctx, role_filter, name='tcb-forged-segment', situations=None, shift=False, closed=None):
    """role_filter(key) -> bool: which violation roles belong to the calling property"""
    from mirx import tcbspecs, tcbrun
    t0 = time.time()
    part = Part(name, 'mirx (MIR symbolic executor) + z3 %s' % _z3v(),
                functions=[], bounds='', outside='')
    budget = 1200 if ctx.quick else 3000
    if closed is not None:
        from mirx import tcbclosed
        units = [u for u in tcbclosed.closed_units(ctx.tier) if u['kind'] in closed]
        results = tcbrun.run_units(units, tier=ctx.tier, budget=budget, fn=tcbclosed.worker_run_closed)
    else:
        units = tcbspecs.all_units(situations, fin_split=not (shift and ctx.quick))
        results = tcbrun.run_units(units, tier=ctx.tier, budget=budget, fn=tcbspecs.worker_run_shift if shift else None)
    enc, mods = set(), set()
    viol_by_key = {}
    validation = []
    for r in results:
        part.paths += r.paths
        part.queries += r.stats.get('queries', 0)
        part.solver_time += r.stats.get('solver_time', 0.0)
        part.transitions += r.obligations
        enc |= set(r.encoded)
        mods |= set(r.models)
        for u in r.unsupported:
            part.inconclusive.append(u[:300])
        for v in r.violations:
            viol_by_key.setdefault(v['key'], v)
        validation += r.validation
        u = r.unit
        nviol = len([v for v in r.violations if role_filter(v['key'])])
        uname = (f'{u["kind"]}/{u["variant"]}/faults<={u["faults"]}' + (f'/mtu={u["mtu"]}' if 'mtu' in u else '') + ('' if u.get('flush', True) else '/close-with-queued-data')) if closed is not None else \
            f'{u["situation"]}/{u["target"]}/flags={"".join(sorted(f[0] for f in tcbspecs.flags_of(u["cls"]))) or "-"}'
        part.units.append({'name': uname,
                           'desc': ('two real TCBs on a faulty network: per emitted segment deliver/drop/duplicate/delay within the fault budget, timers, eager and late reads; ' if closed is not None else '') + ('relational: the same history with ISNs shifted by symbolic k1, k2 must be identical up to the shifts; ' if shift else '') +
                                   'situation reached through the public API with symbolic ISNs; one fully symbolic forged segment; then segments(), receive()',
                           'verdict': 'held' if (nviol == 0 and not r.unsupported) else ('violated' if nviol else 'inconclusive'),
                           'nontrivial': r.paths > 0,
                           'detail': f'{r.paths} feasible paths, {r.obligations} obligations, {r.stats.get("queries", 0)} solver queries, {r.wall:.1f}s',
                           'samples': r.samples[:1]})
    part.functions = sorted(re.sub(r'<impl at [^>]*>', '<impl>', e) for e in enc if not e.startswith('const:'))
    part.assumptions = ['std models used (mirx/models.py, msgmodel.py): ' + ', '.join(sorted(mods)),
                        'Message payload abstracted to provenance extents (faithfulness of the real Message is C07)',
                        'rand ISNs, lengths and forged fields are symbolic; MTU 1500; dev-profile semantics (overflow checks on)']
    # native replay: violations of this property + translator-validation traces
    mine = [v for k, v in sorted(viol_by_key.items()) if role_filter(k)]
    vsel = validation[:40] if ctx.quick else validation[:120]
    batch = mine + vsel
    nat = native_batch(batch) if batch else []
    for v, (matched, lines, err) in zip(mine, nat[:len(mine)]):
        if matched:
            h = hashlib.sha1(v['key'].encode()).hexdigest()[:12]
            rp = os.path.join(replay_dir(ctx.prop), f'mirx-{h}.json')
            with open(rp, 'w') as f:
                json.dump({'engine': 'mirx', 'property': ctx.prop, 'key': v['key'], 'desc': v['desc'], 'rust': v['rust'], 'predicted': v['predicted'],
                           'append_to': 'src/protocols/tcp/tcb.rs'}, f, indent=1)
            part.violations.append({'key': v['key'], 'desc': v['desc'] + ' - replayed natively: the real Tcb printed exactly the predicted trace', 'replay': rp})
        else:
            why = first_diff(v['predicted'], lines) if matched is False else ('native replay did not run: ' + err[-300:])
            part.inconclusive.append(f'counterexample for {v["key"]} did not reproduce natively ({why})')
    nval = 0
    for it, (matched, lines, err) in zip(vsel, nat[len(mine):]):
        if matched:
            nval += 1
        else:
            why = first_diff(it['predicted'], lines) if matched is False else ('native run failed: ' + err[-300:])
            part.inconclusive.append(f'translator validation: a symbolic trace disagrees with the native Tcb ({why})')
    part.validated = nval
    if closed is not None:
        part.bounds = (f'{len(units)} scenarios ({", ".join(sorted(set(u["kind"] + "/" + u["variant"] for u in units)))}); ISNs 32-bit symbolic, write sizes symbolic 1..=2*MSS (A) / 1..=MSS (B); '
                       f'fault budget {max(u["faults"] for u in units)} (any emitted segment incl. SYN/SYN-ACK/ACK/FIN: drop, duplicate, delay behind the round), retransmission and 2*MSL timers; <=14-16 rounds; MTU 1500 and 100')
        part.outside = 'more faults than the budget; more than two data segments per write at MTU 1500; application writes at other points than listed; arbitrary (non-round-based) interleavings'
        return part
    part.bounds = (f'{len(units)} units = {len(set((u["situation"], u["target"]) for u in units))} (situation, endpoint) pairs x {len(units) // len(set((u["situation"], u["target"]) for u in units))} flag classes; '
                   + ('both ISN shifts k1, k2 32-bit symbolic (wrap-around anywhere in handshake or transfer included); ' if shift else '') +
                   'ISNs 32-bit symbolic; forged seq, ack 32-bit, window 16-bit, PSH/URG, text length 0..=MSS symbolic; written data 1..=2*MSS symbolic; '
                   + ('follow-up: segments(), receive()' if ctx.quick else 'follow-up: segments(), receive(), advance_time(symbolic <= 5 s), segments()'))
    part.outside = 'more than one forged segment per history; MTU other than 1500; states reachable only through longer histories than the situations listed'
    return part


def _z3v():
    try:
        import z3
        return z3.get_version_string()
    except Exception:
        return '?'
