"""Part = the result of one engine run inside a check."""
import json, os, re, time
from vf import common
from vf.common import log


class Part:
    def __init__(self, name, engine, functions=(), bounds='', outside='', assumptions=()):
        self.name, self.engine = name, engine
        self.functions = list(functions)
        self.bounds, self.outside = bounds, outside
        self.assumptions = list(assumptions)
        self.units = []          # {name, desc, verdict held|violated|inconclusive|known, detail, nontrivial}
        self.violations = []     # {key, desc, replay}
        self.inconclusive = []
        self.queries = 0
        self.solver_time = 0.0
        self.paths = 0
        self.transitions = 0
        self.validated = 0


def replay_dir(prop):
    d = os.path.join(common.VERIF, 'replays', prop)
    os.makedirs(d, exist_ok=True)
    return d


UNWIND_PAT = re.compile(r'unwinding assertion|recursion unwinding')
UNSUPPORTED_PAT = re.compile(r'is not currently supported by Kani|unsupported_construct')


def kani_part(ctx, name, appends, pattern, functions, bounds, outside='', assumptions=(), jobs=8, timeout=1500,
              features=None, expected=None, crate='elvis-core', mem_kb=14_000_000, keyfn=None):
    """Run all harnesses matching `pattern`; every harness must come back SUCCESSFUL with
    all of its kani::cover! witnesses satisfied.  A FAILED harness is replayed natively
    (concrete playback) before it is reported."""
    part = Part(name, 'kani-0.68/cbmc-6.11/cadical', functions, bounds, outside,
                list(assumptions) + ['Kani/CBMC model of Rust std; dev-profile semantics (overflow checks on)'])
    ov = common.Overlay(f'{ctx.prop}-{name}', crate=crate, appends=appends)
    docs = {}
    for hf in appends.values():
        docs.update(common.harness_docs(hf))
    pats = [pattern] if isinstance(pattern, str) else list(pattern)
    if expected is None:
        expected = [h for h in docs if any(pt in h for pt in pats)]
    tname = f'{ctx.prop}-{name}' + ('-' + features if features else '')
    res, out, rc, wall = common.run_kani(ov, pattern, jobs=jobs, timeout=timeout, features=features, tname=tname, mem_kb=mem_kb)
    logp = os.path.join(common.CACHE, 'logs')
    os.makedirs(logp, exist_ok=True)
    with open(os.path.join(logp, f'{ctx.prop}-{name}-{ctx.tier}.kani.log'), 'w') as f:
        f.write(out)
    byshort = {r.short: r for r in res.values()}
    if not res:
        part.inconclusive.append(f'kani produced no harness results (rc={rc}); see .cache/logs/{ctx.prop}-{name}-{ctx.tier}.kani.log')
        log(out[-3000:])
    for h in expected:
        r = byshort.get(h)
        desc = docs.get(h, '')
        if r is None or r.status is None:
            part.units.append({'name': h, 'desc': desc, 'verdict': 'inconclusive', 'detail': 'no verdict (timeout / out of memory / not run)'})
            part.inconclusive.append(f'{h}: no verdict from Kani (timeout, out of memory or build error)')
            continue
        part.queries += r.n_checks + r.covers[1]
        part.solver_time += r.time
        part.paths += 1
        part.transitions += r.n_checks
        if r.status == 'SUCCESSFUL':
            if r.covers[0] < r.covers[1]:
                part.units.append({'name': h, 'desc': desc, 'verdict': 'inconclusive',
                                   'detail': f'vacuous: only {r.covers[0]}/{r.covers[1]} reachability witnesses satisfied'})
                part.inconclusive.append(f'{h}: reachability witness unsatisfied ({r.covers[0]}/{r.covers[1]}) - harness is (partly) vacuous')
            else:
                part.units.append({'name': h, 'desc': desc, 'verdict': 'held', 'nontrivial': r.covers[1] > 0 or r.n_checks > 0,
                                   'detail': f'{r.n_checks} checks unsat, covers {r.covers[0]}/{r.covers[1]} sat, {r.time:.1f}s'})
            continue
        # FAILED
        real = [c for c in r.failed_checks if not UNWIND_PAT.search(c[0]) and not UNSUPPORTED_PAT.search(c[0])]
        if not real:
            why = '; '.join(c[0] for c in r.failed_checks) or 'FAILED without failed-check list'
            part.units.append({'name': h, 'desc': desc, 'verdict': 'inconclusive', 'detail': why})
            part.inconclusive.append(f'{h}: {why}')
            continue
        hfile = None
        for hf in appends.values():
            if re.search(r'fn ' + re.escape(h) + r'\b', open(os.path.join(common.VERIF, 'harness', 'kani', hf)).read()):
                hfile = hf
        reproduced, test_src, pblog = common.kani_playback(ov, r.harness, hfile, features=features, tname=tname)
        with open(os.path.join(logp, f'{ctx.prop}-{name}-{h}.playback.log'), 'w') as f:
            f.write(pblog)
        checks_txt = '; '.join(f'{c[0]} @ {os.path.basename(c[1])}:{c[3].split("::")[-1]}' for c in real)
        if reproduced:
            rel = [k for k, v in appends.items() if v == hfile][0]
            rp = os.path.join(replay_dir(ctx.prop), f'{name}-{h}.json')
            with open(rp, 'w') as f:
                json.dump({'engine': 'kani', 'property': ctx.prop, 'part': name, 'harness': r.harness, 'harness_file': hfile,
                           'append_to': rel, 'crate': crate, 'features': features, 'failed_checks': checks_txt,
                           'playback_test': test_src}, f, indent=1)
            for c in real:
                key = (keyfn(h, c) if keyfn else f'kani:{h}:{c[0]}:{os.path.basename(c[1])}:{c[3].split("::")[-1]}')
                if not any(v['key'] == key for v in part.violations):
                    part.violations.append({'key': key, 'desc': f'{h}: {c[0]} ({c[1]}:{c[2]} in {c[3]}); reproduced natively by concrete playback',
                                            'replay': rp})
            part.units.append({'name': h, 'desc': desc, 'verdict': 'violated', 'detail': checks_txt})
        else:
            why = 'counterexample did not reproduce natively' if reproduced is False else 'could not obtain / run a concrete playback'
            part.units.append({'name': h, 'desc': desc, 'verdict': 'inconclusive', 'detail': f'{checks_txt}: {why}'})
            part.inconclusive.append(f'{h}: {checks_txt}: {why}')
    ov.remove()
    return part
