"""Shared machinery for the /verif checks: scratch overlay of /repo, Kani runner,
evidence writer, known-findings matching.  Everything is regenerated from /repo's
current working tree on every run."""
import json, os, re, shutil, subprocess, sys, time, hashlib, signal, atexit

VERIF = os.path.dirname(os.path.dirname(os.path.abspath(__file__)))
REPO = os.environ.get('VERIF_REPO', '/repo')
SIM = os.path.join(REPO, 'sim')
CACHE = os.path.join(VERIF, '.cache')
SCRATCH_ROOT = os.environ.get('VERIF_SCRATCH', '/tmp/elvis-verif')

ENV = dict(os.environ)
ENV['CARGO_NET_OFFLINE'] = 'true'
ENV.setdefault('CARGO_TERM_COLOR', 'never')

_cleanup = []


def _run_cleanup():
    for d in _cleanup:
        shutil.rmtree(d, ignore_errors=True)


atexit.register(_run_cleanup)


def _sig(signum, frame):
    _run_cleanup()
    sys.exit(2)


signal.signal(signal.SIGTERM, _sig)


def log(*a):
    print(*a, file=sys.stderr, flush=True)


def repo_rev():
    try:
        h = subprocess.run(['git', '-C', REPO, 'rev-parse', 'HEAD'], capture_output=True, text=True).stdout.strip()
        d = subprocess.run(['git', '-C', REPO, 'status', '--porcelain'], capture_output=True, text=True).stdout.strip()
        return h + ('+dirty' if d else '')
    except Exception:
        return 'unknown'


class Overlay:
    """Scratch copy of /repo/sim/<crate> with harness modules appended to chosen source
    files.  `appends` maps a source file (relative to the crate root) to a harness file
    under /verif/harness/<kind>/ ; the harness file is copied into the scratch crate and
    becomes a *child module* of the module under test, so it sees private items."""

    def __init__(self, name, crate='elvis-core', appends=None, cfg='kani', kind='kani', extra_files=None):
        self.name = name
        self.dir = os.path.join(SCRATCH_ROOT, f'{name}.{os.getpid()}')
        shutil.rmtree(self.dir, ignore_errors=True)
        os.makedirs(self.dir)
        _cleanup.append(self.dir)
        src = os.path.join(SIM, crate)
        self.crate = os.path.join(self.dir, crate)
        shutil.copytree(src, self.crate, ignore=shutil.ignore_patterns('target'))
        shutil.copy(os.path.join(SIM, 'Cargo.lock'), os.path.join(self.crate, 'Cargo.lock'))
        with open(os.path.join(self.crate, 'Cargo.toml'), 'a') as f:
            f.write('\n[workspace]\n')
        self.harness_files = {}
        hd = os.path.join(self.crate, 'src', 'verif_overlay')
        os.makedirs(hd, exist_ok=True)
        for rel, hfile in (appends or {}).items():
            hsrc = os.path.join(VERIF, 'harness', kind, hfile)
            hdst = os.path.join(hd, hfile)
            shutil.copy(hsrc, hdst)
            self.harness_files[hfile] = hdst
            modname = 'verif_' + kind
            with open(os.path.join(self.crate, rel), 'a') as f:
                f.write(f'\n#[cfg({cfg})] #[path = "{hdst}"] pub(crate) mod {modname};\n')
        for rel, content in (extra_files or {}).items():
            p = os.path.join(self.crate, rel)
            os.makedirs(os.path.dirname(p), exist_ok=True)
            with open(p, 'w') as f:
                f.write(content)

    def remove(self):
        shutil.rmtree(self.dir, ignore_errors=True)


# --------------------------------------------------------------------------- Kani

class KaniResult:
    def __init__(self, harness):
        self.harness = harness
        self.status = None          # SUCCESSFUL / FAILED / None (no verdict: timeout, OOM, crash)
        self.failed_checks = []     # [(description, file, line, function)]
        self.n_checks = 0
        self.n_failed = 0
        self.covers = (0, 0)        # satisfied, total
        self.time = 0.0
        self.raw = ''

    @property
    def short(self):
        return self.harness.split('::')[-1]


def parse_kani_output(out):
    """Parse `cargo kani -j N --output-format terse` output into {harness: KaniResult}."""
    res = {}
    cur_by_thread = {}
    blocks = re.split(r'^(Thread \d+: .*)$', out, flags=re.M)
    # blocks = [pre, hdr, body, hdr, body ...]
    i = 1
    while i < len(blocks):
        hdr, body = blocks[i], blocks[i + 1] if i + 1 < len(blocks) else ''
        i += 2
        m = re.match(r'^Thread (\d+): Checking harness (\S+?)\.\.\.$', hdr)
        if m:
            cur_by_thread[m.group(1)] = m.group(2)
            res.setdefault(m.group(2), KaniResult(m.group(2)))
            continue
        m = re.match(r'^Thread (\d+): ?$', hdr)
        if not m:
            continue
        h = cur_by_thread.get(m.group(1))
        if h is None:
            continue
        r = res[h]
        r.raw = body
        _parse_result_block(r, body)
    # single-threaded form (no "Thread" prefix)
    if not res:
        for m in re.finditer(r'^Checking harness (\S+?)\.\.\.$(.*?)(?=^Checking harness |\Z)', out, flags=re.M | re.S):
            r = KaniResult(m.group(1))
            r.raw = m.group(2)
            _parse_result_block(r, m.group(2))
            res[m.group(1)] = r
    return res


def _parse_result_block(r, body):
    m = re.search(r'\*\* (\d+) of (\d+) failed', body)
    if m:
        r.n_failed, r.n_checks = int(m.group(1)), int(m.group(2))
    m = re.search(r'\*\* (\d+) of (\d+) cover properties satisfied', body)
    if m:
        r.covers = (int(m.group(1)), int(m.group(2)))
    m = re.search(r'VERIFICATION:- (\w+)', body)
    if m:
        r.status = m.group(1)
    m = re.search(r'Verification Time: ([\d.]+)s', body)
    if m:
        r.time = float(m.group(1))
    for fm in re.finditer(r'Failed Checks: (.*)\n File: "([^"]*)", line (\d+), in (\S+)', body):
        r.failed_checks.append((fm.group(1).strip(), fm.group(2), int(fm.group(3)), fm.group(4)))
    if re.search(r'Status: ERROR|CBMC failed|out of memory|std::bad_alloc', body):
        r.status = None


_LOCKS = {}


def _claim_tdir(base):
    """Kani build directories are cached per overlay under .cache/kani.  Two processes working on the same property at the same
    time (e.g. quick and thorough, or a second checkout of the repository) must not share one: the first takes the cached
    directory under an advisory lock held until it exits, any other gets a private directory that is removed at exit."""
    if base in _LOCKS:
        return _LOCKS[base][0]
    import fcntl, atexit
    os.makedirs(os.path.dirname(base), exist_ok=True)
    fd = os.open(base + '.lock', os.O_CREAT | os.O_RDWR, 0o644)
    try:
        fcntl.flock(fd, fcntl.LOCK_EX | fcntl.LOCK_NB)
        d = base
    except OSError:
        os.close(fd)
        fd = None
        d = f'{base}.p{os.getpid()}'
        atexit.register(lambda: shutil.rmtree(d, ignore_errors=True))
    _LOCKS[base] = (d, fd)
    os.makedirs(d, exist_ok=True)
    return d


def run_kani(ov, pattern, jobs=8, timeout=1500, mem_kb=14_000_000, features=None, unstable=('stubbing',), tname=None, exact=False):
    """Run every harness whose name contains `pattern` in the overlay crate."""
    tdir = _claim_tdir(os.path.join(CACHE, 'kani', tname or ov.name))
    pats = [pattern] if isinstance(pattern, str) else list(pattern)
    cmd = ['cargo', 'kani', '--target-dir', tdir, '-j', str(jobs), '--output-format', 'terse']
    for pt in pats:
        cmd += ['--harness', pt]
    if exact:
        cmd.append('--exact')
    for u in unstable:
        cmd += ['-Z', u]
    if features:
        cmd += ['--features', features]
    sh = f'ulimit -v {mem_kb}; exec timeout -k 10 {timeout} ' + ' '.join(map(_q, cmd))
    t0 = time.time()
    p = subprocess.run(['bash', '-c', sh], cwd=ov.crate, env=ENV, capture_output=True, text=True)
    out = p.stdout + '\n' + p.stderr
    wall = time.time() - t0
    res = parse_kani_output(out)
    return res, out, p.returncode, wall


def _q(s):
    return "'" + s.replace("'", "'\\''") + "'"


def kani_playback(ov, harness_full, hfile, features=None, tname=None, timeout=900):
    """Ask Kani for a concrete counterexample of `harness_full`, inject the generated unit
    test into the overlay harness file and run it natively (dev profile).  Returns
    (reproduced: bool|None, test_source: str, log: str)."""
    tdir = _claim_tdir(os.path.join(CACHE, 'kani', (tname or ov.name) + '-pb'))
    short = harness_full.split('::')[-1]
    cmd = ['cargo', 'kani', '--target-dir', tdir, '--harness', harness_full, '--exact', '-Z', 'concrete-playback',
           '--concrete-playback=print', '-Z', 'stubbing', '--output-format', 'terse']
    if features:
        cmd += ['--features', features]
    sh = f'ulimit -v 14000000; exec timeout -k 10 {timeout} ' + ' '.join(map(_q, cmd))
    p = subprocess.run(['bash', '-c', sh], cwd=ov.crate, env=ENV, capture_output=True, text=True)
    out = p.stdout + '\n' + p.stderr
    blocks = re.findall(r'```\s*\n(.*?)```', out, flags=re.S)
    blocks = [b for b in blocks if 'fn kani_concrete_playback_' in b]
    if not blocks:
        return None, '', out
    # Kani prints one unit test per failed check and per satisfied cover; inject them all and run them all:
    # the counterexample reproduces natively iff at least one of them fails
    test_src = '\n'.join(blocks)
    path = ov.harness_files[hfile]
    with open(path, 'a') as f:
        f.write('\n' + test_src + '\n')
    cmd = ['cargo', 'kani', 'playback', '-Z', 'concrete-playback']
    if features:
        cmd += ['--features', features]
    cmd += ['--', 'kani_concrete_playback_' + short]
    env = dict(ENV)
    env['CARGO_TARGET_DIR'] = tdir
    p2 = subprocess.run(['bash', '-c', f'exec timeout -k 10 {timeout} ' + ' '.join(map(_q, cmd))], cwd=ov.crate, env=env,
                        capture_output=True, text=True)
    out2 = p2.stdout + '\n' + p2.stderr
    out2 = '\n'.join(l[:400] for l in out2.split('\n'))
    ran = re.search(r'test result: (\w+)\. (\d+) passed; (\d+) failed', out2)
    if not ran:
        return None, test_src, out + '\n----playback----\n' + out2
    if int(ran.group(2)) + int(ran.group(3)) == 0:
        return None, test_src, out + '\n----playback----\n' + out2
    reproduced = int(ran.group(3)) > 0
    return reproduced, test_src, out + '\n----playback----\n' + out2


def harness_docs(hfile, kind='kani'):
    """{harness fn name: doc comment} for every fn carrying #[kani::proof] in the harness source"""
    docs = {}
    doc = []
    proof = False
    for ln in open(os.path.join(VERIF, 'harness', kind, hfile)).read().split('\n'):
        t = ln.strip()
        if t.startswith('///'):
            doc.append(t[3:].strip())
            continue
        if t.startswith('#['):
            if 'kani::proof' in t:
                proof = True
            m = re.search(r'\bfn (\w+)', t)
            if not m:
                continue
        m = re.match(r'^(?:#\[.*\]\s*)*(?:pub(?:\([^)]*\))?\s+)?fn (\w+)', t)
        if m:
            if proof:
                docs[m.group(1)] = ' '.join(doc)
            doc = []
            proof = False
            continue
        if t == '' or not t.startswith('//'):
            if not t.startswith('#['):
                doc = [] if t == '' else doc
    return docs


# --------------------------------------------------------------------------- findings

def load_known_findings():
    p = os.path.join(VERIF, 'known_findings.json')
    if not os.path.exists(p):
        return {'findings': [], 'fixed': []}
    return json.load(open(p))


def match_finding(known, prop, key):
    """A finding matches when its property is `prop` and every regex in its `match` list
    is found in `key` (the role string of the violation)."""
    for f in known.get('findings', []):
        if f.get('property') != prop:
            continue
        pats = f.get('match', [])
        if pats and all(re.search(p, key) for p in pats):
            return f
    return None


# --------------------------------------------------------------------------- evidence

def write_evidence(prop, tier, seed, coverage, assumptions, wall, violations, level='model_checking'):
    evdir = os.environ.get('VERIF_EVIDENCE_DIR') or os.path.join(VERIF, 'evidence')      # test hook: seeded-change runs must not overwrite the evidence
    os.makedirs(evdir, exist_ok=True)
    ev = {
        'property_id': prop, 'tier': tier, 'seed': seed, 'level': level,
        'coverage': coverage, 'assumptions': assumptions, 'wall_s': round(wall, 2), 'violations': violations,
    }
    p = os.path.join(evdir, prop + '.json')
    tmp = p + '.tmp'
    with open(tmp, 'w') as f:
        json.dump(ev, f, indent=1, sort_keys=True, default=str)
        f.write('\n')
    os.replace(tmp, p)
    return p
