"""./check <property> --replay <path>: re-run a stored counterexample natively against /repo's current tree.
exit 1 = it still reproduces (prints VIOLATION ...), exit 0 = it no longer reproduces, exit 2 = could not run."""
import json, os, sys
from vf import common


def run(prop, path):
    d = json.load(open(path))
    if d.get('engine') == 'kani':
        ov = common.Overlay(f'{prop}-replay', crate=d.get('crate', 'elvis-core'), appends={d['append_to']: d['harness_file']})
        hpath = ov.harness_files[d['harness_file']]
        with open(hpath, 'a') as f:
            f.write('\n' + d['playback_test'] + '\n')
        import subprocess
        short = d['harness'].split('::')[-1]
        cmd = ['cargo', 'kani', 'playback', '-Z', 'concrete-playback']
        if d.get('features'):
            cmd += ['--features', d['features']]
        cmd += ['--', 'kani_concrete_playback_' + short]
        env = dict(common.ENV)
        env['CARGO_TARGET_DIR'] = os.path.join(common.CACHE, 'kani', f'{prop}-replay-pb')
        p = subprocess.run(cmd, cwd=ov.crate, env=env, capture_output=True, text=True)
        out = p.stdout + p.stderr
        import re
        m = re.search(r'test result: (\w+)\. (\d+) passed; (\d+) failed', out)
        ov.remove()
        if not m:
            print('replay could not run:\n' + out[-1500:])
            return 2
        if int(m.group(3)) > 0:
            print(f'VIOLATION property={prop} replay={path}')
            print('  ' + d.get('failed_checks', ''))
            return 1
        print('counterexample no longer reproduces: ' + m.group(0))
        return 0
    if d.get('engine') == 'mirx':
        from vf import mirxparts
        key = d.get('key', '')
        if ':tcb:' in key:
            res = mirxparts.native_batch([{'rust': d['rust'], 'predicted': d['predicted']}], append_to=d.get('append_to', 'src/protocols/tcp/tcb.rs'))
            matched, lines, err = res[0]
            if matched:
                print(f'VIOLATION property={prop} replay={path}')
                print('  ' + d.get('desc', ''))
                for l in lines[-3:]:
                    print('  ' + l[:300])
                return 1
            if matched is None:
                print('replay could not run: ' + err[-800:])
                return 2
            print('the native Tcb no longer follows the stored violating trace: ' + mirxparts.first_diff(d['predicted'], lines))
            return 0
        fn = {':message:': mirxparts.message_native_replay, ':reassembly:': mirxparts.reasm_native_replay,
              ':iptable:': mirxparts.iptable_native_replay, ':ipgen:': mirxparts.ipgen_native_replay}
        for tag, f in fn.items():
            if tag in key:
                okn, detail = f(d)
                if okn:
                    print(f'VIOLATION property={prop} replay={path}')
                    print('  ' + detail[:400])
                    return 1
                print('does not reproduce natively: ' + detail[:400])
                return 0
    print('unknown replay file format')
    return 2
