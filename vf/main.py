#!/usr/bin/env python3
"""./check <property> quick|thorough   |   ./check <property> --replay <path>

Exit 0: property held on everything explored (KNOWN-FINDING lines allowed)
Exit 1: `VIOLATION property=<id> replay=<path>` for a counterexample replayed natively
Exit 2: inconclusive (time-out, out of memory, unsupported construct, vacuous harness,
        counterexample that does not reproduce natively)"""
import importlib, json, os, sys, time, traceback

sys.path.insert(0, os.path.dirname(os.path.dirname(os.path.abspath(__file__))))
from vf import common
from vf.common import log


class Ctx:
    def __init__(self, prop, tier, seed):
        self.prop, self.tier, self.seed = prop, tier, seed
        self.quick = tier == 'quick'
        self.only = os.environ.get('VERIF_ONLY')     # debugging: run only parts whose name contains this


def main():
    if len(sys.argv) < 3:
        print(__doc__)
        return 2
    prop = sys.argv[1].upper()
    if sys.argv[2] == '--replay':
        from vf import replay
        return replay.run(prop, sys.argv[3])
    tier = sys.argv[2]
    if tier not in ('quick', 'thorough'):
        print(__doc__)
        return 2
    # the command line decides the tier (quick_cmd / thorough_cmd); VERIF_TIER is informational
    seed = int(os.environ.get('VERIF_SEED', '0') or 0)
    ctx = Ctx(prop, tier, seed)
    t0 = time.time()
    mod = importlib.import_module('props.' + prop.lower())
    parts = []
    crashed = None
    try:
        for p in mod.run(ctx):
            parts.append(p)
    except Exception as e:
        crashed = traceback.format_exc()
        log(crashed)
    wall = time.time() - t0
    return report(ctx, mod, parts, crashed, wall)


def report(ctx, mod, parts, crashed, wall):
    known = common.load_known_findings()
    prop = ctx.prop
    violations, knowns, inconclusive = [], [], []
    if crashed:
        inconclusive.append('check crashed: ' + crashed.strip().split('\n')[-1])
    units_total = units_held = queries = 0
    solver_time = 0.0
    samples, functions, bounds, outside, assumptions, engines = [], [], [], [], [], []
    nontrivial = set()
    paths = transitions = validated = 0
    for p in parts:
        engines.append(p.engine)
        functions += [f for f in p.functions if f not in functions]
        if p.bounds:
            bounds.append(f'{p.name}: {p.bounds}')
        if p.outside:
            outside.append(f'{p.name}: {p.outside}')
        assumptions += [a for a in p.assumptions if a not in assumptions]
        queries += p.queries
        solver_time += p.solver_time
        paths += p.paths
        transitions += p.transitions
        validated += p.validated
        for u in p.units:
            units_total += 1
            if u['verdict'] == 'held':
                units_held += 1
                if u.get('nontrivial', True):
                    nontrivial.add(p.name + ':' + u['name'])
            if len(samples) < 40:
                samples.append({k: u[k] for k in ('name', 'desc', 'verdict', 'detail') if k in u} | {'part': p.name})
        for v in p.violations:
            f = common.match_finding(known, prop, v['key'])
            if f is not None:
                knowns.append((f, v))
            else:
                violations.append(v)
        inconclusive += [f'{p.name}: {x}' for x in p.inconclusive]
    for f, v in knowns:
        print(f"KNOWN-FINDING: property={prop} {f.get('id', '')} {f.get('what', '')} [{v['key']}]")
    for v in violations:
        print(f"VIOLATION property={prop} replay={v['replay']}")
        log('  role:', v['key'])
        log('  ' + v.get('desc', ''))
    for x in inconclusive:
        print(f'INCONCLUSIVE property={prop} {x}')
    coverage = {
        'evaluations': queries,
        'distinct_nontrivial': len(nontrivial),
        'rule': 'evaluations = solver queries discharged (Kani: one per reachable check incl. cover/unwinding '
                'assertions; mirx: one per feasibility / obligation query). distinct_nontrivial = distinct harnesses / '
                'symbolic paths whose obligation was decided AND whose reachability witness (cover / sat path condition) '
                'was satisfied, i.e. not vacuous.',
        'samples': samples,
        'states': max(paths, units_total),
        'transitions': max(transitions, queries),
        'traces_validated_against_impl': validated,
        'units_total': units_total,
        'units_held': units_held,
        'engines': sorted(set(engines)),
        'functions_encoded': functions,
        'bounds': bounds,
        'outside_claim': outside,
        'solver_time_s': round(solver_time, 2),
        'known_findings_matched': [f.get('id') for f, _ in knowns],
        'inconclusive': inconclusive,
        'repo_rev': common.repo_rev(),
        'exhaustive': False,
        'explanation': getattr(mod, 'EXPLANATION', ''),
    }
    common.write_evidence(prop, ctx.tier, ctx.seed, coverage, assumptions, wall, len(violations))
    log(f'[{prop} {ctx.tier}] units {units_held}/{units_total} held, {queries} queries, solver {solver_time:.1f}s, wall {wall:.1f}s, '
        f'{len(violations)} violations, {len(knowns)} known, {len(inconclusive)} inconclusive')
    if violations:
        return 1
    if inconclusive:
        return 2
    return 0


if __name__ == '__main__':
    sys.exit(main())
