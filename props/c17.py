"""C17 - a TCP endpoint withstands arbitrary segments from its peer address."""
from vf.mirxparts import tcb_forged_part

EXPLANATION = ('mirx executes the real MIR of Tcb::{open, send, segments, segment_arrives, process_segment, receive, close, ...} path by path: '
               'every unit drives two endpoints through the public API into a situation (all nine states, both initiations) with symbolic ISNs, '
               'then injects one fully symbolic segment and checks no-panic, no-effect-of-unacceptable-segments and the send-window obligation by z3.')


def mine(key):
    return (':panic:' in key) or (':c17' in key)


def run(ctx):
    yield tcb_forged_part(ctx, mine)


MANIFEST = {
    'engine': 'mirx',
    'technique': 'path-based symbolic execution of the real Tcb MIR (rustc -Zunpretty=mir) with z3 bit-vectors; counterexamples replayed natively',
    'level_text': 'For each of 16 (situation, endpoint) pairs covering all nine TCP states and both initiations, reached through the real public API with '
                  'symbolic 32-bit ISNs and symbolic write sizes, one forged segment with symbolic seq/ack/window/flags/text length (0..=MSS) is executed '
                  'symbolically through segment_arrives -> process_segment, then segments() and receive() (plus one unit each for CLOSED and LISTEN with all 64 flag combinations symbolic: no panic, reset fields per RFC 9293 3.10.7.1): z3 decides on every feasible path that no '
                  'panic/overflow/assert is reachable, that segments entirely outside the receive window (or without SYN/RST in SYN-SENT) change neither '
                  'state, sequence variables, queues nor delivered data, and that new data never exceeds SND.WND. A sample of symbolic traces is re-run '
                  'natively against the real Tcb and must print identical state digests (translator validation).',
    'level_note': 'Bounded: one forged segment per history, MTU 1500, data <= 2*MSS; states reached by the listed situations only. Trusts the MIR printer, '
                  'the mirx interpreter and its std models (listed in the evidence), z3. Every reported violation has been replayed natively first.',
}
