"""C18 - with checksums enabled, emitted checksums are valid and corruption is caught."""
from vf.parts import kani_part

EXPLANATION = 'Kani on a second overlay build with --features compute_checksum; reference = RFC 1071 written independently in the harness.'

APPENDS = {
    'src/protocols/ipv4/ipv4_parsing.rs': 'ipv4_parsing.rs',
    'src/protocols/udp/udp_parsing.rs': 'udp_parsing.rs',
    'src/protocols/tcp/tcp_parsing.rs': 'tcp_parsing.rs',
}


def run(ctx):
    pats = ['c18_'] if ctx.quick else ['c18_', 'x18_']
    yield kani_part(
        ctx, 'checksums', appends=APPENDS, pattern=pats, features='compute_checksum',
        functions=['Checksum::{add_u16,add_u8,add_u32,accumulate_remainder,as_u16}', 'Ipv4HeaderBuilder::build', 'Ipv4Header::from_bytes',
                   'build_udp_header', 'UdpHeader::from_bytes_ipv4', 'TcpHeaderBuilder::build', 'TcpHeader::serialize', 'TcpHeader::from_bytes'],
        bounds='all header field values and addresses; accumulator: 8 arbitrary words + odd trailing byte; payload content arbitrary with length '
               '0,1 (quick) and 0..=3 (thorough) for emission, 0..=3 (UDP) / 0..=2 (TCP) for acceptance; "accepted <=> RFC 1071 verifies" over every '
               'otherwise well-formed packet of those sizes (so every single-/double-bit corruption of those packets is included)',
        outside='payloads longer than 3 bytes (the accumulator is a fold; longer payloads add no new carry behaviour beyond 8 words + odd byte, stated '
                'not proved); maximal lengths',
        jobs=8, timeout=3000 if ctx.quick else 5000)


MANIFEST = {
    'engine': 'kani',
    'technique': 'bounded model checking (Kani/CBMC, SAT) of the compute_checksum build against an independent RFC 1071 reference',
    'level_text': 'In the compute_checksum configuration SAT decides, for all field values and all payload bytes within the length bound, that emitted IPv4/UDP/TCP '
                  'checksums verify under an independent RFC 1071 implementation, and that each decoder accepts a packet exactly when that reference verification passes.',
    'level_note': 'Trusts Kani/CBMC and the 12-line RFC 1071 reference in the harness. Payload length bounded (<= 3 bytes); bit-blasting one\'s-complement '
                  'adder equivalence is what limits the bound.',
}
