"""C07 - Message behaves as an immutable byte string under all operations."""
from vf.parts import kani_part
from vf.mirxparts import message_part

EXPLANATION = ('mirx interprets the real MIR of Message/Chunk/SliceRange (VecDeque and Arc modelled) on a pool of structurally different messages and compares every observable '
               'with plain byte lists after each of a sequence of symbolic operations; Kani cross-checks cut/remove_front on the real VecDeque/Arc.')


def run(ctx):
    yield message_part(ctx)
    if ctx.quick:
        # the Kani cross-check on the real VecDeque / Arc is part of the thorough tier only: it adds nothing the mirx part has not decided, needs
        # 2 minutes of SAT time on an idle machine and ran into its time limit when the machine was heavily loaded (an inconclusive quick check)
        return
    yield kani_part(ctx, 'kani-crosscheck', appends={'src/message.rs': 'message.rs'}, pattern='c07_',
                    functions=['Message::{new, header, cut, remove_front, len, iter}', 'Chunk::{new, as_slice, len}'],
                    bounds='single chunk of 5 symbolic bytes cut at every n in 0..=5; header(2)+body(3) with remove_front(n) for every n in 0..=5; real VecDeque / Arc (no models)',
                    outside='other operations (heap containers with symbolic shape exceed CBMC memory - measured)', jobs=4, timeout=2400)


MANIFEST = {
    'engine': 'mirx + kani',
    'technique': 'path-based symbolic execution of the real Message MIR with z3 against a byte-vector reference; Kani/CBMC cross-check on the real containers (thorough tier)',
    'level_text': 'For a pool of three real messages with different chunk structure (chunk boundaries, a window strictly inside a shared buffer, an empty chunk, clones sharing '
                  'storage) every sequence of 2 (quick) / 3 (thorough) operations over cut, remove_front, all six slice range forms, header, concatenate (other / clone of itself) '
                  'and clone with symbolic operands is executed on the real MIR; after each operation z3 decides for every pool member that len(), the bytes yielded by iter() '
                  'and == agree with the same operations on plain byte vectors (so members not operated on are unchanged despite shared storage), and that out-of-range '
                  'arguments panic exactly when the vector operation is undefined.',
    'level_note': 'Bounded pool and sequence length; byte values symbolic. Trusts the mirx interpreter and its VecDeque/Arc/slice/iterator models (in the thorough tier Kani harnesses run two of the '
                  'operations on the real containers as a cross-check), z3. Violations are re-run natively (real Message vs Vec<u8>) before being reported.',
}
