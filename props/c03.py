"""C03 - TCP connections open, synchronise and close as RFC 9293 prescribes (transition-relation part)."""
from vf.mirxparts import tcb_forged_part

EXPLANATION = ('mirx: for every situation (all nine states) and every symbolic forged segment, the state change produced by the real segment_arrives MIR must be an '
               'edge (or chain of edges) of RFC 9293 figure 5 labelled with flags that were actually processed; TCB deletion only on RST or the final ACK in LAST-ACK.')


def mine(key):
    return ':c03:' in key


def run(ctx):
    yield tcb_forged_part(ctx, mine, name='tcb-transition-relation')
    yield tcb_forged_part(ctx, mine, name='tcb-closed-system-close', closed=('close',))


MANIFEST = {
    'engine': 'mirx',
    'technique': 'path-based symbolic execution of the real Tcb MIR with z3; state changes compared with an edge table written from RFC 9293 figure 5',
    'level_text': 'Every feasible path of segment_arrives from each of the nine states (reached through the real API, symbolic ISNs) on a fully symbolic segment is '
                  'checked against an edge table transcribed from RFC 9293 figure 5 / section 3.10.7: the post-state must be reachable from the pre-state along '
                  'edges whose required control flags were present in the processed segments, and the TCB may be deleted only by RST or by the ACK of our FIN in LAST-ACK.',
    'level_note': 'Part 1: transition relation, one symbolic segment per history. Part 2: two real TCBs on a faulty network (fault budget 1/2): closes by A first, B first or '
                  'both, with data in flight or still queued; obligations: RCV.NXT of each synchronised side lies in [peer SND.UNA, peer SND.NXT], all data submitted before a '
                  'close is delivered before the peer state shows the FIN, both TCBs are released (final ACK in LAST-ACK or 2*MSL) within the round bound, never by reset. '
                  'Known finding: close() strands data still queued in outgoing.text. Trusts mirx, its std models and z3; violations are replayed natively.',
}
