"""C12 - TCP behaviour is independent of absolute sequence numbers (mod 2^32)."""
from vf.parts import kani_part
from vf.mirxparts import tcb_forged_part

EXPLANATION = ('Kani decides the comparison primitives over all 32-bit arguments; mirx (when built) decides shift '
               'invariance of the TCB step functions relationally.')


def run(ctx):
    yield kani_part(
        ctx, 'cmp-primitives',
        appends={'src/protocols/tcp/tcb/modular_cmp.rs': 'modular_cmp.rs'},
        pattern='c12_',
        functions=['modular_cmp::mod_lt', 'modular_cmp::mod_leq', 'modular_cmp::mod_gt', 'modular_cmp::mod_geq',
                   'modular_cmp::mod_bounded', 'ModCmp::offset'],
        bounds='all 2^32 x 2^31 (a, d) pairs; mod_bounded: all a, b, interval length < 2^31 - 1, both comparison kinds; '
               'translation invariance: all a, b, c, k in 0..2^32; loop-free, no unwinding bound needed',
        outside='nothing inside the primitives; TCB-level invariance is the mirx part')
    yield tcb_forged_part(ctx, lambda k: ':c12:' in k, name='tcb-shift-invariance', shift=True)

MANIFEST = {
    'engine': 'kani + mirx',
    'technique': 'Kani/CBMC (SAT) on the comparison primitives over all 32-bit inputs; relational (2-safety) symbolic execution of the real Tcb MIR with z3 for shift invariance',
    'level_text': 'SAT-decided over every 32-bit argument tuple of mod_lt/mod_leq/mod_gt/mod_geq/mod_bounded (loop-free code, so the '
                  'bound is the full input space): agreement with the mathematical circular order for distances < 2^31, strict/non-strict '
                  'consistency, bounded-between vs a reference interval test, invariance under adding any k to all arguments.',
    'level_note': 'Primitives: full input space (loop-free). TCB: every unit history (16 situation/endpoint pairs x flag classes, one symbolic forged segment, '
                  'then segments()/receive()) is executed twice inside one path - ISNs (issA, issB) and (issA+k1, issB+k2) with k1, k2 symbolic - and z3 decides that '
                  'results, states, emitted segments (flags, lengths, windows, relative seq/ack), delivered data and SND/RCV variables are equal up to the shifts. '
                  'Exception (RFC 9293 3.10.7.1): the absolute SEQ=0 of resets sent from CLOSED. Trusts Kani/CBMC, mirx + std models, z3; violations replayed natively.',
}
