"""C12 - TCP behaviour is independent of absolute sequence numbers (mod 2^32)."""
from vf.parts import kani_part

EXPLANATION = ('Kani decides the comparison primitives over all 32-bit arguments; mirx (when built) decides shift '
               'invariance of the TCB step functions relationally.')


def run(ctx):
    yield kani_part(
        ctx, 'cmp-primitives',
        appends={'src/protocols/tcp/tcb/modular_cmp.rs': 'modular_cmp.rs'},
        pattern='c12_',
        functions=['modular_cmp::mod_lt', 'modular_cmp::mod_leq', 'modular_cmp::mod_gt', 'modular_cmp::mod_geq',
                   'modular_cmp::mod_bounded', 'ModCmp::offset'],
        bounds='all 2^32 x 2^31 (a, d) pairs; mod_bounded: all a, b, interval length < 2^31 - 1, both comparison kinds; '
               'translation invariance: all a, b, c, k in 0..2^32; loop-free, no unwinding bound needed',
        outside='nothing inside the primitives; TCB-level invariance is the mirx part')

MANIFEST = {
    'engine': 'kani',
    'technique': 'bounded model checking (Kani/CBMC, SAT) of the real comparison primitives over all 32-bit inputs',
    'level_text': 'SAT-decided over every 32-bit argument tuple of mod_lt/mod_leq/mod_gt/mod_geq/mod_bounded (loop-free code, so the '
                  'bound is the full input space): agreement with the mathematical circular order for distances < 2^31, strict/non-strict '
                  'consistency, bounded-between vs a reference interval test, invariance under adding any k to all arguments.',
    'level_note': 'Trusts Kani/CBMC and its model of core; harness module appended to a scratch copy of modular_cmp.rs. TCB-level shift '
                  'invariance (second half of the statement) is decided by the mirx part when present in the evidence; otherwise only the primitives are claimed.',
}
