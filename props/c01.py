"""C01 - TCP delivers a reliable, ordered, exactly-once byte stream."""
from vf.mirxparts import tcb_forged_part

EXPLANATION = ('mirx: two real TCBs (MIR) on a symbolic faulty network; payloads are provenance extents, so "what the application was handed is a prefix of what the peer '
               'submitted" is arithmetic over extents decided by z3 on every path; fault schedules are enumerated by the executor within a stated budget.')


def mine(key):
    return ':c01:' in key or ':panic:' in key


def run(ctx):
    yield tcb_forged_part(ctx, mine, name='tcb-closed-system-transfer', closed=('transfer',))
    # sender mapping under arbitrary (also partial / forged) acknowledgments: the retransmission queue always covers [SND.UNA, SND.NXT)
    yield tcb_forged_part(ctx, lambda k: ':c01:' in k, name='tcb-sender-mapping',
                          situations=['estab_inflight', 'estab_wndlimited', 'synsent_data', 'finwait1', 'lastack', 'closing', 'simopen'])


MANIFEST = {
    'engine': 'mirx',
    'technique': 'path-based symbolic execution of two real Tcb instances (MIR) exchanging segments over an enumerated fault schedule, z3 bit-vectors, provenance model of payloads',
    'level_text': 'Two real TCBs with symbolic 32-bit ISNs and symbolic write sizes run the handshake and a transfer in one or both directions (writes before and after the '
                  'handshake completes) while each emitted segment may be dropped, duplicated or delayed within a fault budget and timers fire when the wire is silent. On every '
                  'feasible path z3 decides that the bytes handed to each application are at every step a prefix of the peer\'s stream (no gap, repeat, reorder or foreign byte), '
                  'that sequence variables of synchronised endpoints agree, and that after the faults stop everything is delivered exactly once, acknowledged, and both '
                  'endpoints fall silent within the round bound.',
    'level_note': 'Bounded: fault budget 1 (quick) / 2 (thorough), writes <= 2 segments per direction, MTU 1500 and 100, round-structured schedules; the tokio session task '
                  '(timer granularity, instruction channel) is outside. Payload content is abstracted to provenance (justified by C07). Trusts mirx + std models + z3; sampled '
                  'traces are re-run natively and must match (translator validation); violations are replayed natively before being reported.',
}
