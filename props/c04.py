"""C04 - datagrams reach exactly the listener bound to their address and port (UDP layer, function level)."""
from vf.mirxparts import udp_part

EXPLANATION = ('mirx interprets the real MIR of Udp::listen, Udp::demux, UdpSession::receive, Ipv4::listen and the UDP header decoder on the real Message; the machine around them '
               '(protocol lookup, Control, DashMap, upstream applications) is modelled, applications are recording stubs.')


def run(ctx):
    yield udp_part(ctx)


MANIFEST = {
    'engine': 'mirx',
    'technique': 'path-based symbolic execution of the real synchronous UDP listen/demux MIR with z3; environment (machine, Control, DashMap, applications) modelled',
    'level_text': 'Function level, one machine: for up to three bindings with symbolic (address, port) and a datagram with symbolic addresses, ports and payload bytes, z3 decides on every path that the '
                  'datagram is handed to exactly one application - the one bound to (destination address, port), else the one bound to (0.0.0.0, port), never another - with the payload unchanged '
                  '(8-byte header stripped) and a session whose endpoints are (destination, port) local and the true (source, port) remote; that a second bind of a bound endpoint is refused and '
                  'leaves the table unchanged; and that a datagram for which no binding exists is dropped with an error and changes nothing.',
    'level_note': 'Only the UDP layer of one machine is decided (listen/demux, and the synchronous prefix of the async open_and_listen: which socket it binds). The quantifier\'s machine sets, ARP on/off and arrival orders go through the async Network/Pci/Arp path and are outside; so is the '
                  'IPv4-layer lookup in Ipv4::demux. Trusts mirx and its environment models (listed in the evidence) and z3; violations are re-run natively on a real Machine with recording protocols.',
}
