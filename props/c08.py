"""C08 - header codecs round-trip and match the RFC wire formats bit for bit."""
from vf.parts import kani_part

EXPLANATION = ('Kani harnesses appended to each *_parsing.rs: R1 decode(encode(v)) = v, R2 encode(decode(b)) = consumed bytes for '
               'arbitrary accepted b, R3 byte-for-byte equality with reference encoders written from the RFC diagrams.')

APPENDS = {
    'src/protocols/ipv4/ipv4_parsing.rs': 'ipv4_parsing.rs',
    'src/protocols/udp/udp_parsing.rs': 'udp_parsing.rs',
    'src/protocols/tcp/tcp_parsing.rs': 'tcp_parsing.rs',
    'src/protocols/arp/arp_parsing.rs': 'arp_parsing.rs',
    'src/protocols/dns/dns_parsing.rs': 'dns_parsing.rs',
    'src/protocols/dhcp/dhcp_parsing.rs': 'dhcp_parsing.rs',
}


def run(ctx):
    pats = ['c08_'] if ctx.quick else ['c08_', 'x08_']
    yield kani_part(
        ctx, 'codecs', appends=APPENDS, pattern=pats,
        functions=['Ipv4Header::from_bytes', 'Ipv4Header::serialize', 'Ipv4HeaderBuilder::{new,identification,fragment_offset,flags,build}',
                   'ControlFlags::*', 'TypeOfService::*', 'build_udp_header', 'UdpHeader::from_bytes_ipv4', 'TcpHeader::from_bytes',
                   'TcpHeader::serialize', 'TcpHeaderBuilder::*', 'tcp_parsing::Control::*', 'ArpPacket::{build,from_bytes,new_request,new_reply}',
                   'DnsMessage::from_bytes', 'DnsHeader::build', 'DnsQuestion::build', 'DnsResourceRecord::build',
                   'dhcp_parsing::MessageType::try_from', 'BytesExt::*'],
        bounds='all numeric fields full width (ports, seq/ack, windows, 64 TCP flag combinations, TOS with reserved bits clear, id, DF/MF, '
               'fragment offset 0..8191, TTL, protocol, all addresses, 48-bit MACs); UDP/TCP payload length symbolic 0..=70000 (crosses the '
               '16-bit limit; payload bytes are not inspected in the default build); DNS names 0..=3 bytes without the delimiter, rdata 0..=4 '
               'bytes, R2 over every 29-byte string; DHCP message types all 256 byte values; unwinding assertions on',
        outside='DNS names/rdata longer than the bound; DHCP whole-message round trip (to_message/from_bytes through Message + UTF-8 validation '
                'did not finish in CBMC within 25 min at 32 bytes - only the message-type mapping and the C14 no-panic harness are decided); '
                'checksum field content in the default build is 0 by construction (full checksum equality is C18)',
        jobs=8, timeout=3000 if ctx.quick else 5000)


MANIFEST = {
    'engine': 'kani',
    'technique': 'bounded model checking (Kani/CBMC, SAT) of the real encoders/decoders against RFC reference encoders, symbolic field values and symbolic accepted byte strings',
    'level_text': 'For IPv4, UDP, TCP, ARP (and DNS within small name bounds) every field value / every accepted byte string inside the stated '
                  'bounds is decided by SAT: decode(encode(v)) = v, encode(decode(b)) = b, and byte-for-byte equality with reference encoders '
                  'written in the harness from RFC 791/768/9293/826 diagrams. Each harness carries reachability witnesses (kani::cover).',
    'level_note': 'Trusts Kani/CBMC and its std model, and the reference encoders in /verif/harness/kani/*_parsing.rs. Default build compiles '
                  'checksums out, so the checksum field is 0 here; the checksum build is C18. Known finding: TCP reserved/CWR/ECE bits are accepted and dropped on re-encode.',
}
