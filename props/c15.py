"""C15 - address allocation never hands the same address to two holders (generator part)."""
from vf.mirxparts import ipgen_part

EXPLANATION = ('mirx interprets the real MIR of IpGenerator::{new_sub, new_sub_no_ends, fetch_ip, fetch_net, block_subnet, return_subnet, ...} (BTreeSet modelled) and checks after every '
               'operation that the set of available addresses equals pool minus blocked minus held, for an arbitrary witness address.')


def run(ctx):
    yield ipgen_part(ctx)


MANIFEST = {
    'engine': 'mirx',
    'technique': 'path-based symbolic execution of the real IpGenerator MIR with z3; set equalities over all addresses expressed with a free witness address',
    'level_text': 'For symbolic pools and every operation sequence in the bound, z3 decides on every path that fetch returns only networks all of whose addresses were available (inside the '
                  'pool, not blocked, not held) with the requested mask, that afterwards exactly those addresses are unavailable, that block removes and return restores exactly the given '
                  'network, that None means no available range contains an aligned network of that size (exhaustion, not refusal), that no path panics at 0.0.0.0 / 255.255.255.255, and '
                  'that new_sub / new_sub_no_ends offer exactly the subnet / its host addresses.',
    'level_note': 'Only the generator is decided; pairwise-distinct DHCP leases follow because every lease is one fetch under the server\'s write lock (serialisation argument, stated not '
                  'checked); the async DHCP transport is outside. Trusts mirx + BTreeSet model + z3; violations are re-run natively through the shim crate.',
}
