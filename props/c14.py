"""C14 - malformed input is rejected with an error, never with a crash (decoder part)."""
from vf.parts import kani_part
from vf.mirxparts import demux_drop_part
from props.c08 import APPENDS

EXPLANATION = ('Kani: each packet decoder is run on b[..n] for an arbitrary byte array b and symbolic n; Kani\'s panic/overflow/index/unwrap checks '
               'are the assertion. The NDL text parser is not covered (see level_note).')


def run(ctx):
    pats = ['c14_'] if ctx.quick else ['c14_', 'x14_']
    yield kani_part(
        ctx, 'decoders', appends=APPENDS, pattern=pats,
        functions=['Ipv4Header::from_bytes', 'Ipv4Header::serialize', 'UdpHeader::from_bytes_ipv4', 'TcpHeader::from_bytes', 'ArpPacket::from_bytes',
                   'DnsMessage::from_bytes', 'DnsQuestion::query_name', 'DhcpMessage::from_bytes', 'dhcp_parsing::MessageType::try_from', 'BytesExt::*'],
        bounds='arbitrary byte strings with symbolic length: IPv4 0..=24, UDP 0..=12 (+ arbitrary claimed packet length), TCP 0..=24 (+ arbitrary '
               'claimed packet length incl. > 65535), ARP 0..=30, DNS 0..=29 (arbitrary rdlength claim), DHCP 0..=34; query_name on a 1-byte name; '
               'unwinding assertions on',
        outside='inputs longer than the bounds (the decoders have no length-dependent behaviour beyond their fixed header, the DNS/DHCP string loops and '
                'the rdata loop); the NDL text parser (nom/HashMap/format!/file I/O: no encoding within reach); "the simulation keeps running" (tokio runtime)',
        jobs=8, timeout=3000 if ctx.quick else 5000)
    yield demux_drop_part(ctx)


MANIFEST = {
    'engine': 'kani + mirx',
    'technique': 'Kani/CBMC (SAT): every decoder on an arbitrary byte array of symbolic length, panic-freedom as the assertion; mirx symbolic execution of the real Udp::demux / Ipv4::demux / Tcp::demux / Arp::demux / DhcpClient::demux / DhcpServer::demux on arbitrary bytes (drop at layer)',
    'level_text': 'Every byte string up to the stated length (all truncations, all field mutations, extreme length fields are particular values of the '
                  'arbitrary array) is shown by SAT to produce Ok or an Err value - never a panic, overflow, index or unwrap failure - in the six packet decoders.',
    'level_note': 'Decided: the six packet decoders (Kani) and drop-at-layer for the synchronous Udp::demux and Ipv4::demux (mirx: arbitrary bytes => an error is returned, nothing is '
                  'delivered, no binding changes, no panic; a frame is delivered only if its header is well-formed), for Tcp::demux without session or listener (refused with an error, a reset only for a header that decodes), for Arp::demux (the ARP table changes only for a packet that decodes) and for DhcpClient::demux / DhcpServer::demux on payloads too short to decode (an error, no panic). NOT covered: DHCP payloads of 32 bytes or more at the application layer, the NDL text parser (nom combinators, HashMap/RandomState, '
                  'format!, file I/O - neither Kani nor the MIR executor can encode it), Tcp::demux with a listener or session and Arp::demux replying to a request (async environment) and "the simulation keeps running". Trusts Kani/CBMC, mirx, z3.',
}
