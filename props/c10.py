"""C10 - IPv4 fragmentation produces a faithful partition of the datagram."""
from vf.parts import kani_part
from vf.mirxparts import frag_content_part

EXPLANATION = ('Kani: the real fragment() on an arbitrary datagram-or-fragment with symbolic MTU/length/offset/flags, payload abstracted to its length; '
               'payload content placement is the mirx part (when present).')


def run(ctx):
    pats = ['c10_'] if ctx.quick else ['c10_', 'x10_']
    yield kani_part(
        ctx, 'frag-arith',
        appends={'src/message.rs': 'message.rs', 'src/protocols/ipv4/fragmentation.rs': 'fragmentation.rs'},
        pattern=pats,
        functions=['fragmentation::fragment', 'Fragmentation::fragment', 'Message::cut', 'ControlFlags::{set_is_last_fragment,is_last_fragment,may_fragment}'],
        bounds='MTU 68..=65535 (incl. MTU-20 not a multiple of 8), total length 20..=65535, incoming fragment offset 0..=8191 and MF arbitrary (the input may '
               'itself be a fragment, which makes one step the induction step for chains), DF arbitrary, all other header fields arbitrary; at most 3 and 6 '
               'pieces per step (payload <= K * 8*floor((MTU-20)/8)); chain harness: two decreasing MTUs with at most 2 x 2 pieces; unwinding assertions on',
        outside='more than 6 pieces per step; MTU < 68 (for MTU 21..=27 the recursion does not terminate - outside the property\'s range); header options '
                '(IHL is always 5 in this code base); payload bytes (length-only message: fragment() only cuts)',
        assumptions=['length-only Message {chunks: [], len}: the real Message::cut runs on it; justified because fragment() never reads payload bytes',
                     'incoming fragment satisfies offset + payload/8 <= 8191 (it belongs to a representable datagram)'],
        jobs=8, timeout=3000 if ctx.quick else 5000)
    yield frag_content_part(ctx)


MANIFEST = {
    'engine': 'kani + mirx',
    'technique': 'Kani/CBMC (SAT) on the real fragment() with symbolic MTU, lengths, offsets and flags; mirx symbolic execution of the same function with the payload as a provenance extent (z3)',
    'level_text': 'For every MTU >= 68, every total length, every incoming offset/MF/DF and header, with at most 6 pieces per application, SAT decides: pass-through '
                  'when it fits, discard when DF forbids, otherwise pieces that fit the MTU, are 8-byte aligned, consecutive from the incoming offset, sum to the '
                  'payload, keep MF on all but the piece ending the input (which keeps the incoming MF), and preserve all other header fields; plus an explicit '
                  'two-MTU chain relative to the original datagram.',
    'level_note': 'Kani part: payload abstracted to its length (sound because fragment() never inspects bytes). mirx part: payload is one provenance extent and z3 decides that piece i '
                  'carries exactly bytes [8*(off_i - off_in), +len_i) of the input, consecutive and complete, for symbolic MTU/length/offset (<= 3/5 pieces). Trusts Kani/CBMC, mirx, z3; '
                  'violations replayed natively.',
}
