"""C11 - IPv4 reassembly rebuilds exactly the datagrams that were fragmented."""
from vf.mirxparts import reassembly_part

EXPLANATION = ('mirx interprets the real MIR of Reassembly::{receive_packet, maybe_cull_segment}, Segment::receive_packet, BitVec, Fragment::cmp and BufId on scenarios whose '
               'header fields and piece sizes are symbolic; the oracle is a per-datagram record of the pieces received since the last completion.')


def run(ctx):
    yield reassembly_part(ctx)


MANIFEST = {
    'engine': 'mirx',
    'technique': 'path-based symbolic execution of the real reassembly MIR with z3; payloads as provenance extents; arrival orders / duplicates enumerated by the executor',
    'level_text': 'For 1-2 datagrams with fully symbolic headers (the solver decides key collisions) cut into 2-3 pieces of symbolic size, every arrival order, interleaving, '
                  'duplicate position and expiry-callback timing in the bound is executed on the real MIR: z3 decides that a datagram is returned exactly at the arrival that '
                  'completes the pieces received since its last completion, that the returned body is exactly bytes [0,total) of that datagram and nothing else, that the header is '
                  'the original (offset 0, MF clear, total length restored, other fields equal), and that a stale-epoch expiry removes nothing while the current one removes the buffer.',
    'level_note': 'Bounded scenario shapes (see evidence); trusts mirx and its HashMap/BinaryHeap/Vec models and z3. Violations are re-run natively on the real Reassembly before being reported. '
                  'The reassembly timer task in Ipv4Session (async) is outside.',
}
