"""C09 - route lookup is longest-prefix match over consistent subnet arithmetic."""
from vf.parts import kani_part
from vf.mirxparts import iptable_part

EXPLANATION = 'Kani: subnet arithmetic over all 32-bit addresses and all mask lengths; Obm order. mirx (when present): IpTable lookups.'


def run(ctx):
    pats = ['c09_'] if ctx.quick else ['c09_', 'x09_']
    yield kani_part(
        ctx, 'subnet-arith',
        appends={'src/protocols/arp/subnetting.rs': 'subnetting.rs', 'src/ip_table.rs': 'ip_table.rs'},
        pattern=pats,
        functions=['Ipv4Mask::{from_bitcount,count_ones,try_from,ips_in_net}', 'Ipv4Net::{new,id,broadcast,range,contains,overlaps,from_cidr}',
                   'Ipv4Net::try_from(RangeInclusive)', 'cidr_to_ip', 'ip_table::Obm::cmp', 'subnetting::clamp'],
        bounds='all 2^32 addresses x all mask lengths 0..=32 (from_bitcount: all u32 arguments); pairs and triples of arbitrary networks; '
               'ranges: all (start, end) pairs; CIDR text (thorough): first octet 100..=255 as three symbolic digits; loop-free',
        outside='CIDR mask text via u32::from_str (CBMC aborts on the std integer parser with symbolic digits; the mask value itself is covered for '
                'all u32 through from_bitcount); table-level lookups are the mirx part',
        jobs=8, timeout=2400 if ctx.quick else 3600)
    yield iptable_part(ctx)


MANIFEST = {
    'engine': 'kani + mirx',
    'technique': 'Kani/CBMC (SAT) on subnet arithmetic and key order over all 32-bit inputs; mirx symbolic execution of the real IpTable MIR against a longest-prefix-match reference (z3)',
    'level_text': 'SAT-decided for every address, every mask length and every pair/triple of networks: contains <=> id <= a <= broadcast, overlaps <=> ranges '
                  'intersect (symmetric), range -> network succeeds exactly for aligned power-of-two blocks with the right error otherwise, mask construction, and '
                  'that the table key order is a total order putting longer masks first (the fact longest-prefix lookup relies on).',
    'level_note': 'Arithmetic: full input space (Kani). Table: every sequence of 3/4 add/add_direct/remove/remove_direct operations over symbolic networks (mask length 0..=32 '
                  'symbolic) followed by a symbolic lookup is executed on the real IpTable MIR with BTreeMap modelled as a list sorted by the real Obm::cmp; z3 decides that the result '
                  'is the value of the most specific alive network containing the address (order-independent by construction of the reference) and that add/remove return the '
                  'previous value. Trusts Kani/CBMC, mirx + BTreeMap model, z3; violations are re-run natively.',
}
