"""C09 - route lookup is longest-prefix match over consistent subnet arithmetic."""
from vf.parts import kani_part

EXPLANATION = 'Kani: subnet arithmetic over all 32-bit addresses and all mask lengths; Obm order. mirx (when present): IpTable lookups.'


def run(ctx):
    pats = ['c09_'] if ctx.quick else ['c09_', 'x09_']
    yield kani_part(
        ctx, 'subnet-arith',
        appends={'src/protocols/arp/subnetting.rs': 'subnetting.rs', 'src/ip_table.rs': 'ip_table.rs'},
        pattern=pats,
        functions=['Ipv4Mask::{from_bitcount,count_ones,try_from,ips_in_net}', 'Ipv4Net::{new,id,broadcast,range,contains,overlaps,from_cidr}',
                   'Ipv4Net::try_from(RangeInclusive)', 'cidr_to_ip', 'ip_table::Obm::cmp', 'subnetting::clamp'],
        bounds='all 2^32 addresses x all mask lengths 0..=32 (from_bitcount: all u32 arguments); pairs and triples of arbitrary networks; '
               'ranges: all (start, end) pairs; CIDR text (thorough): first octet 100..=255 as three symbolic digits; loop-free',
        outside='CIDR mask text via u32::from_str (CBMC aborts on the std integer parser with symbolic digits; the mask value itself is covered for '
                'all u32 through from_bitcount); table-level lookups are the mirx part',
        jobs=8, timeout=900 if ctx.quick else 1800)


MANIFEST = {
    'engine': 'kani',
    'technique': 'bounded model checking (Kani/CBMC, SAT) of the real subnet arithmetic and table-key order over all 32-bit inputs',
    'level_text': 'SAT-decided for every address, every mask length and every pair/triple of networks: contains <=> id <= a <= broadcast, overlaps <=> ranges '
                  'intersect (symmetric), range -> network succeeds exactly for aligned power-of-two blocks with the right error otherwise, mask construction, and '
                  'that the table key order is a total order putting longer masks first (the fact longest-prefix lookup relies on).',
    'level_note': 'Trusts Kani/CBMC. Table-level longest-prefix lookup over BTreeMap is decided by the mirx part when present in the evidence; BTreeMap itself is '
                  'outside Kani\'s reach here (measured out-of-memory with two symbolic entries).',
}
