"""C16 - routers forward along the route and TTL bounds every packet's life (one hop, function level)."""
from vf.mirxparts import router_part

EXPLANATION = ('mirx interprets the real MIR of ArpRouter::demux (through a shim crate), IpTable::get_recipient, Ipv4Header::serialize and the real Message for a fully symbolic datagram '
               'and symbolic routing table; the spawned forwarding task is recorded, not run.')


def run(ctx):
    yield router_part(ctx)


MANIFEST = {
    'engine': 'mirx',
    'technique': 'path-based symbolic execution of the real ArpRouter::demux MIR with z3; machine and tokio::spawn modelled',
    'level_text': 'One hop, function level: for symbolic routing tables (<= 2/3 routes, mask lengths 0..=32, gateway or direct) and a fully symbolic IPv4 header and payload, z3 decides on every path: '
                  'at most one forward per datagram; TTL <= 1 => dropped, nothing forwarded, no crash (TTL 0 included); otherwise the forwarded bytes are the received header re-encoded with '
                  'TTL - 1 and nothing else changed followed by the unchanged payload; the next hop is the gateway of the longest-prefix route for the destination (the destination itself '
                  'for a direct route) on that route\'s interface with that interface\'s local address; no route => error and nothing forwarded.',
    'level_note': 'Hop-by-hop delivery to "the destination host and no other", loops across several routers and ARP resolution are async (Arp::resolve, Network::send) and outside; the TTL bound on '
                  'a packet\'s life follows from the one-hop decrement (decreasing measure). The spawned forwarding task is run symbolically with the ARP outcome chosen by the model (resolved / failed). Native replay observes panic/return value, '
                  'the real IpTable lookup, the real header re-serialisation, the started forward (Arp::resolve_hook) and - in a real two-network simulation - whether anything is sent when the next hop '
                  'does not answer ARP; other task-level violations are reported INCONCLUSIVE. Trusts mirx + environment models + z3.',
}
